"""observation on the UNMODIFIED library: `if event: return event` after the wait drops a falsy
threadsafe event that woke a blocked request."""
import os, sys, threading, time
import curtsies.input as ci
from curtsies import events
master, slave = os.openpty()
stream = open(slave, "rb", buffering=0, closefd=False)
class Batch(events.Event):
    def __init__(self, items=()): self.items = list(items)
    def __len__(self): return len(self.items)
with ci.Input(in_stream=stream, keynames="bytes") as inp:
    cb = inp.threadsafe_event_trigger(Batch)
    threading.Timer(0.2, cb).start()
    r1 = inp.send(1.0)
    r2 = inp.send(0)
print("blocked request returned", r1, "; next request returned", r2)
print("event lost" if r1 is None and r2 is None else "event delivered")
