"""selftest term: trust in the reference terminal model (DESIGN.md 2.3).

(a) table-driven conformance cases for exactly the xterm semantics the checks lean on;
(b) differential run against pyte on seeded streams restricted to the sub-language on
    which pyte and xterm agree (pyte keeps no pending-wrap flag: streams never erase or
    save the cursor right after filling the last column).
pyte is a second opinion on the model, never on a property verdict.
"""

import os
import random
import sys

VERIF = os.path.dirname(os.path.dirname(os.path.abspath(__file__)))


def _text(t, which=None):
    return ["".join(c[0] for c in row) for row in t.bufs[which or t.active]]


def cases():
    from sim.term import TermModel, BLANK, BOLD
    out = []

    def case(name, h, w, data, check):
        t = TermModel(h, w)
        t.feed(data)
        ok = False
        try:
            ok = bool(check(t))
        except Exception as e:
            ok = False
            name += " (%s)" % e
        out.append((name, ok and not t.unknown, t.unknown))

    case("print advances", 2, 5, "ab", lambda t: (t.r, t.c, t.pending) == (0, 2, False) and _text(t)[0] == "ab   ")
    case("last column sets pending wrap, cursor stays", 2, 3, "abc", lambda t: (t.r, t.c, t.pending) == (0, 2, True))
    case("next printable wraps", 2, 3, "abcd", lambda t: (t.r, t.c, t.pending) == (1, 1, False) and _text(t) == ["abc", "d  "])
    case("wrap on bottom row scrolls into scrollback", 2, 3, "abcdefg",
         lambda t: _text(t) == ["def", "g  "] and len(t.scrollback) == 1 and t.scrolls["main"] == 1)
    case("EL in pending wrap erases last column", 1, 3, "abc\x1b[K", lambda t: _text(t) == ["ab "] and t.el_in_pending == 1)
    case("CUP clears pending wrap", 2, 3, "abc\x1b[1;1Hx", lambda t: _text(t) == ["xbc", "   "] and t.c == 1)
    case("CR clears pending wrap", 2, 3, "abc\rx", lambda t: _text(t)[0] == "xbc")
    case("CUP clamps row and column", 3, 4, "\x1b[1000001;99Hx", lambda t: _text(t)[2] == "   x" and t.r == 2)
    case("CUP defaults", 3, 4, "zz\x1b[Hx", lambda t: _text(t)[0] == "xz  ")
    case("LF on bottom row scrolls main into scrollback", 2, 3, "a\r\nb\r\nc", lambda t: _text(t) == ["b  ", "c  "]
         and [r[0][0] for r in t.scrollback] == ["a"])
    case("LF keeps column", 3, 4, "ab\nc", lambda t: _text(t)[1] == "  c ")
    case("onlcr", 3, 4, "ab\nc", lambda t: True)
    case("alt screen: LF scroll discards, no scrollback", 2, 3, "\x1b[?1049ha\r\nb\r\nc",
         lambda t: t.scrollback == [] and t.scrolls["alt"] == 1 and _text(t) == ["b  ", "c  "])
    case("1049 saves/restores cursor and keeps main", 2, 4, "ab\x1b[?1049h\x1b[2;2Hzz\x1b[?1049lc",
         lambda t: t.active == "main" and _text(t, "main")[0] == "abc " and (t.r, t.c) == (0, 3))
    case("1049 clears alt on entry", 2, 3, "\x1b[?1049hxyz\x1b[?1049l\x1b[?1049h", lambda t: _text(t) == ["   ", "   "])
    case("DECSC/DECRC restore position, pen and pending", 2, 3, "abc\x1b7\x1b[2;1H\x1b[31mq\x1b8d",
         lambda t: _text(t) == ["abc", "d  "] or _text(t)[1][0] == "d")
    case("DECRC restores pending wrap: next char wraps", 3, 3, "abc\x1b7\x1b[3;1H\x1b8X", lambda t: _text(t)[1] == "X  ")
    case("cursor visibility", 1, 2, "\x1b[?25l", lambda t: t.cursor_visible is False)
    case("normal_cursor string", 1, 2, "\x1b[?25l\x1b[?12l\x1b[?25h", lambda t: t.cursor_visible is True)
    case("SGR fg/bg/bold and reset", 1, 4, "\x1b[31m\x1b[44m\x1b[1ma\x1b[0mb",
         lambda t: t.screen[0][0] == ("a", 31, 44, BOLD) and t.screen[0][1] == ("b", None, None, 0))
    case("SGR 39/49 close only colour", 1, 4, "\x1b[31m\x1b[4ma\x1b[39mb", lambda t: t.screen[0][1] == ("b", None, None, 8))
    case("SGR 22 closes bold and dark", 1, 4, "\x1b[1;2ma\x1b[22mb", lambda t: t.screen[0][1][3] == 0)
    case("BCE: erase uses current background", 1, 3, "abc\x1b[1;1H\x1b[42m\x1b[K", lambda t: t.screen[0][2] == (" ", None, 42, 0))
    case("EL 1 erases through cursor", 1, 4, "abcd\x1b[1;2H\x1b[1K", lambda t: _text(t) == ["  cd"])
    case("ED 0 erases from cursor down", 2, 3, "abc\r\ndef\x1b[1;2H\x1b[J", lambda t: _text(t) == ["a  ", "   "])
    case("ED 3 clears scrollback (counted)", 1, 2, "a\r\nb\x1b[3J", lambda t: t.scrollback == [] and t.sb_cleared == 1)
    case("CHA", 1, 4, "abc\x1b[1Gx", lambda t: _text(t) == ["xbc "])
    case("CUU/CUD clamp", 3, 2, "\x1b[5B\x1b[9Ax", lambda t: _text(t)[0] == "x ")
    case("window ops ignored", 1, 2, "\x1b[22;0;0t\x1b[23;0;0ta", lambda t: _text(t) == ["a "])
    case("DSR reports 1-based", 3, 4, "\x1b[2;3H", lambda t: _dsr(t) == "\x1b[2;3R")
    case("unknown sequence is flagged not swallowed", 1, 2, "\x1b[5y", lambda t: False)
    # the last one is expected to have unknown entries: invert
    name, ok, unk = out.pop()
    out.append((name, bool(unk), []))
    return out


def _dsr(t):
    got = []
    t.reply = got.append
    t.feed("\x1b[6n")
    return got[0]


def differential(n, seed):
    import pyte
    from sim.term import TermModel
    rng = random.Random(seed)
    bad = []
    for i in range(n):
        h, w = rng.randint(1, 6), rng.randint(2, 9)
        t = TermModel(h, w)
        scr = pyte.Screen(w, h)
        st = pyte.Stream(scr)
        data = []
        col_full = False
        for _ in range(rng.randint(1, 40)):
            k = rng.random()
            if k < 0.45:
                s = "".join(rng.choice("abcXYZ09.,") for _ in range(rng.randint(1, 3)))
            elif k < 0.6:
                s = "\x1b[%d;%dH" % (rng.randint(1, h + 2), rng.randint(1, w + 2))
            elif k < 0.68:
                s = rng.choice(("\r", "\n", "\r\n"))
            elif k < 0.76:
                s = rng.choice(("\x1b[K", "\x1b[1K", "\x1b[2K", "\x1b[J", "\x1b[1J", "\x1b[2J"))
            elif k < 0.9:
                s = "\x1b[%dm" % rng.choice((0, 1, 4, 7, 31, 32, 39, 41, 44, 49))
            else:
                s = rng.choice(("\x1b[%dG" % rng.randint(1, w), "\x1b[%dA" % rng.randint(1, 3), "\x1b[%dB" % rng.randint(1, 3),
                                "\x1b[%dC" % rng.randint(1, 3), "\x1b[%dD" % rng.randint(1, 3)))
            # stay inside the sub-language on which pyte and xterm agree: nothing but a cursor
            # move or a printable may follow a character put into the last column
            if t.pending and not (s[0] not in "\x1b\r\n" or s.endswith("H")):
                s = "\x1b[%d;%dH" % (rng.randint(1, h), rng.randint(1, w))
            data.append(s)
            t.feed(s)
            st.feed(s)
        mine = _text(t)
        theirs = [("".join(scr.buffer[y][x].data for x in range(w))) for y in range(h)]
        if mine != theirs:
            bad.append({"i": i, "h": h, "w": w, "data": "".join(data), "model": mine, "pyte": theirs})
            continue
        # attributes: fg/bg/bold/underscore/reverse
        for y in range(h):
            for x in range(w):
                c = scr.buffer[y][x]
                m = t.screen[y][x]
                if m[0] == " ":
                    # blank cells: pyte erases with the whole pen and scrolls in default-coloured lines,
                    # xterm erases and scrolls in with the background only (BCE) -- covered by the
                    # conformance cases above, not comparable here
                    continue
                fg = {None: "default", 31: "red", 32: "green"}.get(m[1], "?")
                bg = {None: "default", 41: "red", 44: "blue"}.get(m[2], "?")
                if (c.fg, c.bg, c.bold, c.underscore, c.reverse) != (fg, bg, bool(m[3] & 1), bool(m[3] & 8), bool(m[3] & 32)):
                    bad.append({"i": i, "cell": (y, x), "data": "".join(data), "model": m,
                                "pyte": (c.data, c.fg, c.bg, c.bold, c.underscore, c.reverse)})
                    break
            else:
                continue
            break
        if not t.pending and (t.r, t.c) != (scr.cursor.y, scr.cursor.x):
            bad.append({"i": i, "cursor_model": (t.r, t.c), "cursor_pyte": (scr.cursor.y, scr.cursor.x), "data": "".join(data)})
    return bad


def run(argv):
    sys.path.insert(0, VERIF)
    n = 3000
    for a in argv:
        if a.startswith("--n="):
            n = int(a.split("=")[1])
    rc = 0
    res = cases()
    for name, ok, unk in res:
        if not ok:
            rc = 1
            print("CONFORMANCE FAIL: %s %r" % (name, unk))
    print("conformance cases: %d, failed: %d" % (len(res), sum(1 for r in res if not r[1])))
    try:
        bad = differential(n, 20260927)
    except ImportError:
        print("pyte not importable: differential part skipped")
        return rc
    for b in bad[:5]:
        print("DIFFERENTIAL MISMATCH:", b)
    print("differential streams vs pyte: %d, mismatches: %d" % (n, len(bad)))
    return 1 if (rc or bad) else 0
