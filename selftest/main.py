import sys


def main(argv):
    if not argv:
        print("usage: check selftest mutants|determinism|term|kernel [...]")
        return 2
    what, rest = argv[0], argv[1:]
    if what == "mutants":
        from selftest import mutants
        return mutants.run(rest)
    if what == "determinism":
        from selftest import determinism
        return determinism.run(rest)
    if what == "term":
        from selftest import termtest
        return termtest.run(rest)
    if what == "kernel":
        from selftest import kerneltest
        return kerneltest.run(rest)
    if what == "refactors":
        from selftest import refactors
        return refactors.run(rest)
    if what == "seeded":
        from selftest import seeded
        return seeded.run(rest)
    if what == "seeded-add":
        from selftest import seeded
        return seeded.add(rest)
    print("unknown selftest %r" % what)
    return 2
