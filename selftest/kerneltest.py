"""selftest kernel: pin the simulated kernel's behaviour to the real one where curtsies
depends on it, using a real pty pair and real pipes (DESIGN.md 10)."""

import errno
import fcntl
import os
import select
import signal
import sys
import termios
import tty

VERIF = os.path.dirname(os.path.dirname(os.path.abspath(__file__)))


def real_script():
    """the same script against the real kernel; returns a list of observations"""
    obs = []
    m, s = os.openpty()
    r, w = os.pipe()
    r2, w2 = os.pipe()
    try:
        a0 = termios.tcgetattr(s)
        obs.append(("cc_types_canonical", [type(x).__name__ for x in a0[6][:8]]))
        tty.setcbreak(s, termios.TCSANOW)
        a1 = termios.tcgetattr(s)
        obs.append(("cbreak_iflag_cleared", (a0[0] ^ a1[0]) & ~termios.ICRNL == 0 and not a1[0] & termios.ICRNL))
        obs.append(("cbreak_lflag_cleared", not a1[3] & (termios.ECHO | termios.ICANON)))
        obs.append(("cbreak_oflag_same", a0[1] == a1[1]))
        obs.append(("cbreak_vmin_vtime", (a1[6][termios.VMIN], a1[6][termios.VTIME])))
        obs.append(("cc_types_noncanonical", [type(a1[6][i]).__name__ for i in (termios.VMIN, termios.VTIME, termios.VINTR)]))
        cc = a1[6]
        cc[termios.VSTOP] = 0
        termios.tcsetattr(s, termios.TCSANOW, a1)
        obs.append(("int_cc_roundtrip", termios.tcgetattr(s)[6][termios.VSTOP]))
        termios.tcsetattr(s, termios.TCSANOW, a0)
        obs.append(("attrs_restored", termios.tcgetattr(s) == a0))
        # select: nothing ready, timeout 0
        obs.append(("select_empty", select.select([s, r, r2], [], [], 0)[0] == []))
        tty.setcbreak(s, termios.TCSANOW)
        os.write(m, b"ab")
        os.write(w2, b"x")
        os.write(w, b"y")
        import time
        time.sleep(0.05)
        rs = select.select([s, r, r2], [], [], 0)[0]
        obs.append(("select_order_as_given", rs == [s, r, r2]))
        rs = select.select([r2, s], [], [], 0)[0]
        obs.append(("select_order_as_given_2", rs == [r2, s]))
        obs.append(("read_short", os.read(s, 1)))
        obs.append(("read_rest_bounded", os.read(s, 1024)))
        fl = fcntl.fcntl(s, fcntl.F_GETFL)
        fcntl.fcntl(s, fcntl.F_SETFL, fl | os.O_NONBLOCK)
        obs.append(("nonblock_set", bool(fcntl.fcntl(s, fcntl.F_GETFL) & os.O_NONBLOCK)))
        try:
            os.read(s, 10)
            obs.append(("eagain", False))
        except BlockingIOError as e:
            obs.append(("eagain", e.errno == errno.EAGAIN))
        fcntl.fcntl(s, fcntl.F_SETFL, fl)
        obs.append(("flags_roundtrip", fcntl.fcntl(s, fcntl.F_GETFL) == fl))
        obs.append(("setfl_cannot_change_access_mode", (fcntl.fcntl(s, fcntl.F_GETFL) & os.O_ACCMODE) == (fl & os.O_ACCMODE)))
        obs.append(("pipe_read_partial", os.read(r, 1024)))
        # non-canonical MIN/TIME
        def mt(vmin, vtime):
            a = termios.tcgetattr(s)
            a[6][termios.VMIN], a[6][termios.VTIME] = vmin, vtime
            termios.tcsetattr(s, termios.TCSANOW, a)
        mt(0, 0)
        obs.append(("min0_time0_empty_read", os.read(s, 10)))
        fcntl.fcntl(s, fcntl.F_SETFL, fl | os.O_NONBLOCK)
        try:
            obs.append(("min0_time0_empty_read_nonblock", os.read(s, 10)))
        except BlockingIOError:
            obs.append(("min0_time0_empty_read_nonblock", "EAGAIN"))
        fcntl.fcntl(s, fcntl.F_SETFL, fl)
        mt(0, 2)
        t0 = time.monotonic()
        d = os.read(s, 10)
        obs.append(("min0_time2_empty_read", (d, 0.15 <= time.monotonic() - t0 < 1.0)))
        mt(3, 0)
        os.write(m, b"ab")
        time.sleep(0.05)
        obs.append(("min3_two_bytes_not_selectable", select.select([s], [], [], 0)[0] == []))
        fcntl.fcntl(s, fcntl.F_SETFL, fl | os.O_NONBLOCK)
        try:
            obs.append(("min3_two_bytes_nonblock_read", os.read(s, 10)))
        except BlockingIOError:
            obs.append(("min3_two_bytes_nonblock_read", "EAGAIN"))
        fcntl.fcntl(s, fcntl.F_SETFL, fl)
        os.write(m, b"cde")
        time.sleep(0.05)
        obs.append(("min3_selectable", select.select([s], [], [], 0)[0] == [s]))
        obs.append(("min3_read_small_n", os.read(s, 2)))
        os.write(m, b"fg")
        time.sleep(0.05)
        obs.append(("min3_read_rest", os.read(s, 10)))
        mt(1, 0)
        # wake-up fd must be non-blocking
        try:
            old = signal.set_wakeup_fd(w)
            signal.set_wakeup_fd(old)
            obs.append(("wakeup_requires_nonblocking", False))
        except ValueError:
            obs.append(("wakeup_requires_nonblocking", True))
        os.set_blocking(w, False)
        old = signal.set_wakeup_fd(w, warn_on_full_buffer=False)
        back = signal.set_wakeup_fd(old)
        obs.append(("wakeup_returns_previous", (old, back == w)))
        os.close(r2)
        try:
            select.select([r2], [], [], 0)
            obs.append(("select_closed_fd", "no error"))
        except OSError as e:
            obs.append(("select_closed_fd", e.errno == errno.EBADF))
        except ValueError:
            obs.append(("select_closed_fd", "ValueError"))
        try:
            os.read(r2, 1)
            obs.append(("read_closed_fd", "no error"))
        except OSError as e:
            obs.append(("read_closed_fd", e.errno == errno.EBADF))
        r2 = None
    finally:
        for fd in (m, s, r, w, r2, w2):
            if fd is not None:
                try:
                    os.close(fd)
                except OSError:
                    pass
    return obs


def sim_script():
    from sim.world import World
    from sim.kernel import Kernel
    world = World({})
    k = Kernel(world)
    obs = []
    s, ttyobj = k.open_tty()
    r, w = k.pipe()
    r2, w2 = k.pipe()
    a0 = k.tcgetattr(s)
    obs.append(("cc_types_canonical", [type(x).__name__ for x in a0[6][:8]]))
    k.setcbreak(s, termios.TCSANOW)
    a1 = k.tcgetattr(s)
    obs.append(("cbreak_iflag_cleared", (a0[0] ^ a1[0]) & ~termios.ICRNL == 0 and not a1[0] & termios.ICRNL))
    obs.append(("cbreak_lflag_cleared", not a1[3] & (termios.ECHO | termios.ICANON)))
    obs.append(("cbreak_oflag_same", a0[1] == a1[1]))
    obs.append(("cbreak_vmin_vtime", (a1[6][termios.VMIN], a1[6][termios.VTIME])))
    obs.append(("cc_types_noncanonical", [type(a1[6][i]).__name__ for i in (termios.VMIN, termios.VTIME, termios.VINTR)]))
    cc = a1[6]
    cc[termios.VSTOP] = 0
    k.tcsetattr(s, termios.TCSANOW, a1)
    obs.append(("int_cc_roundtrip", k.tcgetattr(s)[6][termios.VSTOP]))
    k.tcsetattr(s, termios.TCSANOW, a0)
    obs.append(("attrs_restored", k.tcgetattr(s) == a0))
    obs.append(("select_empty", k.select([s, r, r2], [], [], 0)[0] == []))
    k.setcbreak(s, termios.TCSANOW)
    k.arrive(s, b"ab")
    k.write(w2, b"x")
    k.write(w, b"y")
    obs.append(("select_order_as_given", k.select([s, r, r2], [], [], 0)[0] == [s, r, r2]))
    obs.append(("select_order_as_given_2", k.select([r2, s], [], [], 0)[0] == [r2, s]))
    obs.append(("read_short", k.read(s, 1)))
    obs.append(("read_rest_bounded", k.read(s, 1024)))
    fl = k.fcntl(s, fcntl.F_GETFL)
    k.fcntl(s, fcntl.F_SETFL, fl | os.O_NONBLOCK)
    obs.append(("nonblock_set", bool(k.fcntl(s, fcntl.F_GETFL) & os.O_NONBLOCK)))
    try:
        k.read(s, 10)
        obs.append(("eagain", False))
    except BlockingIOError as e:
        obs.append(("eagain", e.errno == errno.EAGAIN))
    k.fcntl(s, fcntl.F_SETFL, fl)
    obs.append(("flags_roundtrip", k.fcntl(s, fcntl.F_GETFL) == fl))
    k.fcntl(s, fcntl.F_SETFL, 0)
    obs.append(("setfl_cannot_change_access_mode", (k.fcntl(s, fcntl.F_GETFL) & os.O_ACCMODE) == (fl & os.O_ACCMODE)))
    k.fcntl(s, fcntl.F_SETFL, fl)
    obs.append(("pipe_read_partial", k.read(r, 1024)))
    def mt(vmin, vtime):
        a = k.tcgetattr(s)
        a[6][termios.VMIN], a[6][termios.VTIME] = vmin, vtime
        k.tcsetattr(s, termios.TCSANOW, a)
    mt(0, 0)
    obs.append(("min0_time0_empty_read", k.read(s, 10)))
    k.fcntl(s, fcntl.F_SETFL, fl | os.O_NONBLOCK)
    try:
        obs.append(("min0_time0_empty_read_nonblock", k.read(s, 10)))
    except BlockingIOError:
        obs.append(("min0_time0_empty_read_nonblock", "EAGAIN"))
    k.fcntl(s, fcntl.F_SETFL, fl)
    mt(0, 2)
    t0 = world.now
    d = k.read(s, 10)
    obs.append(("min0_time2_empty_read", (d, 0.15 <= world.now - t0 < 1.0)))
    mt(3, 0)
    k.arrive(s, b"ab")
    obs.append(("min3_two_bytes_not_selectable", k.select([s], [], [], 0)[0] == []))
    k.fcntl(s, fcntl.F_SETFL, fl | os.O_NONBLOCK)
    try:
        obs.append(("min3_two_bytes_nonblock_read", k.read(s, 10)))
    except BlockingIOError:
        obs.append(("min3_two_bytes_nonblock_read", "EAGAIN"))
    k.fcntl(s, fcntl.F_SETFL, fl)
    k.arrive(s, b"cde")
    obs.append(("min3_selectable", k.select([s], [], [], 0)[0] == [s]))
    obs.append(("min3_read_small_n", k.read(s, 2)))
    k.arrive(s, b"fg")
    obs.append(("min3_read_rest", k.read(s, 10)))
    mt(1, 0)
    try:
        old = k.sig.set_wakeup_fd(w)
        k.sig.set_wakeup_fd(old)
        obs.append(("wakeup_requires_nonblocking", False))
    except ValueError:
        obs.append(("wakeup_requires_nonblocking", True))
    k.set_blocking(w, False)
    old = k.sig.set_wakeup_fd(w, warn_on_full_buffer=False)
    back = k.sig.set_wakeup_fd(old)
    obs.append(("wakeup_returns_previous", (old, back == w)))
    k.close(r2)
    try:
        k.select([r2], [], [], 0)
        obs.append(("select_closed_fd", "no error"))
    except OSError as e:
        obs.append(("select_closed_fd", e.errno == errno.EBADF))
    except ValueError:
        obs.append(("select_closed_fd", "ValueError"))
    try:
        k.read(r2, 1)
        obs.append(("read_closed_fd", "no error"))
    except OSError as e:
        obs.append(("read_closed_fd", e.errno == errno.EBADF))
    return obs


def random_differential(nseq, seed):
    """random sequences of non-blocking operations against a real pty + pipes and against the simulated
    kernel; every observable result must agree (bytes typed avoid the tty's special characters)"""
    import random
    import time
    from sim.world import World
    from sim.kernel import Kernel
    rng = random.Random(seed)
    alphabet = [bytes([c]) for c in list(range(0x20, 0x7F)) + [0x1B, 0x09, 0x01, 0x02, 0x05]] + [b"\xc3\xa9", b"\xe2\x82\xac"]
    bad = []
    for n in range(nseq):
        m, sl = os.openpty()
        pr = [os.pipe(), os.pipe()]
        for r_, w_ in pr:
            os.set_blocking(r_, False)
            os.set_blocking(w_, False)
        tty.setcbreak(sl, termios.TCSANOW)
        os.set_blocking(sl, False)
        world = World({})
        k = Kernel(world)
        ss, _t = k.open_tty()
        spr = [k.pipe(), k.pipe()]
        for r_, w_ in spr:
            k.set_blocking(r_, False)
            k.set_blocking(w_, False)
        k.setcbreak(ss, termios.TCSANOW)
        k.set_blocking(ss, False)
        trace = []
        try:
            for step in range(rng.randint(5, 40)):
                op = rng.choice(("arrive", "arrive", "read", "read", "select", "pwrite", "pread", "toggle", "attrs"))
                if op == "arrive":
                    data = b"".join(rng.choice(alphabet) for _ in range(rng.randint(1, 12)))
                    os.write(m, data)
                    k.arrive(ss, data)
                    # delivery from the master to the slave's line discipline is asynchronous in the real
                    # kernel: wait until everything typed so far can be read (FIONREAD), then compare
                    want = len(k.fds[ss].inq)
                    t0 = time.time()
                    while time.time() - t0 < 2:
                        import array
                        buf = array.array("i", [0])
                        fcntl.ioctl(sl, termios.FIONREAD, buf)
                        if buf[0] >= want:
                            break
                    a = b = None
                elif op == "read":
                    cnt = rng.choice((1, 2, 7, 16, 1024))
                    a = _try(lambda: os.read(sl, cnt))
                    b = _try(lambda: k.read(ss, cnt))
                elif op == "select":
                    order = rng.sample([0, 1, 2], 3)
                    real_fds = [sl, pr[0][0], pr[1][0]]
                    sim_fds = [ss, spr[0][0], spr[1][0]]
                    a = [real_fds.index(x) for x in select.select([real_fds[i] for i in order], [], [], 0)[0]]
                    b = [sim_fds.index(x) for x in k.select([sim_fds[i] for i in order], [], [], 0)[0]]
                elif op == "pwrite":
                    i = rng.randrange(2)
                    data = bytes(rng.randrange(256) for _ in range(rng.randint(1, 19)))
                    a = _try(lambda: os.write(pr[i][1], data))
                    b = _try(lambda: k.write(spr[i][1], data))
                elif op == "pread":
                    i = rng.randrange(2)
                    cnt = rng.choice((1, 19, 1024))
                    a = _try(lambda: os.read(pr[i][0], cnt))
                    b = _try(lambda: k.read(spr[i][0], cnt))
                elif op == "toggle":
                    blk = rng.random() < 0.5
                    os.set_blocking(sl, blk)
                    k.set_blocking(ss, blk)
                    a = bool(fcntl.fcntl(sl, fcntl.F_GETFL) & os.O_NONBLOCK)
                    b = bool(k.fcntl(ss, fcntl.F_GETFL) & os.O_NONBLOCK)
                    if blk:     # never do a blocking read in this test
                        os.set_blocking(sl, False)
                        k.set_blocking(ss, False)
                else:
                    ra, sa = termios.tcgetattr(sl), k.tcgetattr(ss)
                    a = (bool(ra[3] & termios.ICANON), bool(ra[3] & termios.ECHO), bool(ra[0] & termios.ICRNL), ra[6][termios.VMIN], ra[6][termios.VTIME])
                    b = (bool(sa[3] & termios.ICANON), bool(sa[3] & termios.ECHO), bool(sa[0] & termios.ICRNL), sa[6][termios.VMIN], sa[6][termios.VTIME])
                trace.append((op, a, b))
                if a != b:
                    bad.append({"sequence": n, "step": step, "op": op, "real": a, "sim": b, "trace": trace[-6:]})
                    break
        finally:
            for fd in (m, sl, pr[0][0], pr[0][1], pr[1][0], pr[1][1]):
                try:
                    os.close(fd)
                except OSError:
                    pass
    return bad


def _try(f):
    try:
        return f()
    except BlockingIOError:
        return "EAGAIN"
    except OSError as e:
        return "OSError(%s)" % errno.errorcode.get(e.errno, e.errno)


def run(argv):
    sys.path.insert(0, VERIF)
    try:
        real = real_script()
    except OSError as e:
        print("no pty available in this sandbox (%s): kernel comparison skipped" % e)
        return 0
    sim = sim_script()
    bad = 0
    for (n1, v1), (n2, v2) in zip(real, sim):
        mark = "ok " if (n1, v1) == (n2, v2) else "DIFF"
        if mark == "DIFF":
            bad += 1
        print("%-4s %-34s real=%r sim=%r" % (mark, n1, v1, v2))
    if len(real) != len(sim):
        bad += 1
        print("DIFF number of observations", len(real), len(sim))
    print("kernel comparison: %d observations, %d differences" % (len(real), bad))
    nseq = 300
    for a in argv:
        if a.startswith("--n="):
            nseq = int(a.split("=")[1])
    diffs = random_differential(nseq, 20260928)
    for dd in diffs[:5]:
        print("RANDOM DIFFERENTIAL MISMATCH:", dd)
    print("random differential against the real kernel: %d sequences, %d mismatches" % (nseq, len(diffs)))
    return 1 if (bad or diffs) else 0
