"""selftest kernel: pin the simulated kernel's behaviour to the real one where curtsies
depends on it, using a real pty pair and real pipes (DESIGN.md 10)."""

import errno
import fcntl
import os
import select
import signal
import sys
import termios
import tty

VERIF = os.path.dirname(os.path.dirname(os.path.abspath(__file__)))


def real_script():
    """the same script against the real kernel; returns a list of observations"""
    obs = []
    m, s = os.openpty()
    r, w = os.pipe()
    r2, w2 = os.pipe()
    try:
        a0 = termios.tcgetattr(s)
        obs.append(("cc_types_canonical", [type(x).__name__ for x in a0[6][:8]]))
        tty.setcbreak(s, termios.TCSANOW)
        a1 = termios.tcgetattr(s)
        obs.append(("cbreak_iflag_cleared", (a0[0] ^ a1[0]) & ~termios.ICRNL == 0 and not a1[0] & termios.ICRNL))
        obs.append(("cbreak_lflag_cleared", not a1[3] & (termios.ECHO | termios.ICANON)))
        obs.append(("cbreak_oflag_same", a0[1] == a1[1]))
        obs.append(("cbreak_vmin_vtime", (a1[6][termios.VMIN], a1[6][termios.VTIME])))
        obs.append(("cc_types_noncanonical", [type(a1[6][i]).__name__ for i in (termios.VMIN, termios.VTIME, termios.VINTR)]))
        cc = a1[6]
        cc[termios.VSTOP] = 0
        termios.tcsetattr(s, termios.TCSANOW, a1)
        obs.append(("int_cc_roundtrip", termios.tcgetattr(s)[6][termios.VSTOP]))
        termios.tcsetattr(s, termios.TCSANOW, a0)
        obs.append(("attrs_restored", termios.tcgetattr(s) == a0))
        # select: nothing ready, timeout 0
        obs.append(("select_empty", select.select([s, r, r2], [], [], 0)[0] == []))
        tty.setcbreak(s, termios.TCSANOW)
        os.write(m, b"ab")
        os.write(w2, b"x")
        os.write(w, b"y")
        import time
        time.sleep(0.05)
        rs = select.select([s, r, r2], [], [], 0)[0]
        obs.append(("select_order_as_given", rs == [s, r, r2]))
        rs = select.select([r2, s], [], [], 0)[0]
        obs.append(("select_order_as_given_2", rs == [r2, s]))
        obs.append(("read_short", os.read(s, 1)))
        obs.append(("read_rest_bounded", os.read(s, 1024)))
        fl = fcntl.fcntl(s, fcntl.F_GETFL)
        fcntl.fcntl(s, fcntl.F_SETFL, fl | os.O_NONBLOCK)
        obs.append(("nonblock_set", bool(fcntl.fcntl(s, fcntl.F_GETFL) & os.O_NONBLOCK)))
        try:
            os.read(s, 10)
            obs.append(("eagain", False))
        except BlockingIOError as e:
            obs.append(("eagain", e.errno == errno.EAGAIN))
        fcntl.fcntl(s, fcntl.F_SETFL, fl)
        obs.append(("flags_roundtrip", fcntl.fcntl(s, fcntl.F_GETFL) == fl))
        obs.append(("setfl_cannot_change_access_mode", (fcntl.fcntl(s, fcntl.F_GETFL) & os.O_ACCMODE) == (fl & os.O_ACCMODE)))
        obs.append(("pipe_read_partial", os.read(r, 1024)))
        # wake-up fd must be non-blocking
        try:
            old = signal.set_wakeup_fd(w)
            signal.set_wakeup_fd(old)
            obs.append(("wakeup_requires_nonblocking", False))
        except ValueError:
            obs.append(("wakeup_requires_nonblocking", True))
        os.set_blocking(w, False)
        old = signal.set_wakeup_fd(w, warn_on_full_buffer=False)
        back = signal.set_wakeup_fd(old)
        obs.append(("wakeup_returns_previous", (old, back == w)))
        os.close(r2)
        try:
            select.select([r2], [], [], 0)
            obs.append(("select_closed_fd", "no error"))
        except OSError as e:
            obs.append(("select_closed_fd", e.errno == errno.EBADF))
        except ValueError:
            obs.append(("select_closed_fd", "ValueError"))
        try:
            os.read(r2, 1)
            obs.append(("read_closed_fd", "no error"))
        except OSError as e:
            obs.append(("read_closed_fd", e.errno == errno.EBADF))
        r2 = None
    finally:
        for fd in (m, s, r, w, r2, w2):
            if fd is not None:
                try:
                    os.close(fd)
                except OSError:
                    pass
    return obs


def sim_script():
    from sim.world import World
    from sim.kernel import Kernel
    world = World({})
    k = Kernel(world)
    obs = []
    s, ttyobj = k.open_tty()
    r, w = k.pipe()
    r2, w2 = k.pipe()
    a0 = k.tcgetattr(s)
    obs.append(("cc_types_canonical", [type(x).__name__ for x in a0[6][:8]]))
    k.setcbreak(s, termios.TCSANOW)
    a1 = k.tcgetattr(s)
    obs.append(("cbreak_iflag_cleared", (a0[0] ^ a1[0]) & ~termios.ICRNL == 0 and not a1[0] & termios.ICRNL))
    obs.append(("cbreak_lflag_cleared", not a1[3] & (termios.ECHO | termios.ICANON)))
    obs.append(("cbreak_oflag_same", a0[1] == a1[1]))
    obs.append(("cbreak_vmin_vtime", (a1[6][termios.VMIN], a1[6][termios.VTIME])))
    obs.append(("cc_types_noncanonical", [type(a1[6][i]).__name__ for i in (termios.VMIN, termios.VTIME, termios.VINTR)]))
    cc = a1[6]
    cc[termios.VSTOP] = 0
    k.tcsetattr(s, termios.TCSANOW, a1)
    obs.append(("int_cc_roundtrip", k.tcgetattr(s)[6][termios.VSTOP]))
    k.tcsetattr(s, termios.TCSANOW, a0)
    obs.append(("attrs_restored", k.tcgetattr(s) == a0))
    obs.append(("select_empty", k.select([s, r, r2], [], [], 0)[0] == []))
    k.setcbreak(s, termios.TCSANOW)
    k.arrive(s, b"ab")
    k.write(w2, b"x")
    k.write(w, b"y")
    obs.append(("select_order_as_given", k.select([s, r, r2], [], [], 0)[0] == [s, r, r2]))
    obs.append(("select_order_as_given_2", k.select([r2, s], [], [], 0)[0] == [r2, s]))
    obs.append(("read_short", k.read(s, 1)))
    obs.append(("read_rest_bounded", k.read(s, 1024)))
    fl = k.fcntl(s, fcntl.F_GETFL)
    k.fcntl(s, fcntl.F_SETFL, fl | os.O_NONBLOCK)
    obs.append(("nonblock_set", bool(k.fcntl(s, fcntl.F_GETFL) & os.O_NONBLOCK)))
    try:
        k.read(s, 10)
        obs.append(("eagain", False))
    except BlockingIOError as e:
        obs.append(("eagain", e.errno == errno.EAGAIN))
    k.fcntl(s, fcntl.F_SETFL, fl)
    obs.append(("flags_roundtrip", k.fcntl(s, fcntl.F_GETFL) == fl))
    k.fcntl(s, fcntl.F_SETFL, 0)
    obs.append(("setfl_cannot_change_access_mode", (k.fcntl(s, fcntl.F_GETFL) & os.O_ACCMODE) == (fl & os.O_ACCMODE)))
    k.fcntl(s, fcntl.F_SETFL, fl)
    obs.append(("pipe_read_partial", k.read(r, 1024)))
    try:
        old = k.sig.set_wakeup_fd(w)
        k.sig.set_wakeup_fd(old)
        obs.append(("wakeup_requires_nonblocking", False))
    except ValueError:
        obs.append(("wakeup_requires_nonblocking", True))
    k.set_blocking(w, False)
    old = k.sig.set_wakeup_fd(w, warn_on_full_buffer=False)
    back = k.sig.set_wakeup_fd(old)
    obs.append(("wakeup_returns_previous", (old, back == w)))
    k.close(r2)
    try:
        k.select([r2], [], [], 0)
        obs.append(("select_closed_fd", "no error"))
    except OSError as e:
        obs.append(("select_closed_fd", e.errno == errno.EBADF))
    except ValueError:
        obs.append(("select_closed_fd", "ValueError"))
    try:
        k.read(r2, 1)
        obs.append(("read_closed_fd", "no error"))
    except OSError as e:
        obs.append(("read_closed_fd", e.errno == errno.EBADF))
    return obs


def run(argv):
    sys.path.insert(0, VERIF)
    try:
        real = real_script()
    except OSError as e:
        print("no pty available in this sandbox (%s): kernel comparison skipped" % e)
        return 0
    sim = sim_script()
    bad = 0
    for (n1, v1), (n2, v2) in zip(real, sim):
        mark = "ok " if (n1, v1) == (n2, v2) else "DIFF"
        if mark == "DIFF":
            bad += 1
        print("%-4s %-34s real=%r sim=%r" % (mark, n1, v1, v2))
    if len(real) != len(sim):
        bad += 1
        print("DIFF number of observations", len(real), len(sim))
    print("kernel comparison: %d observations, %d differences" % (len(real), bad))
    return 1 if bad else 0
