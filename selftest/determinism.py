"""selftest determinism: the large version of the per-check self-check (DESIGN.md 2.7).

For every claimed check, N run indices are executed under several settings in fresh
interpreters and the SHA-1 digests of the full event logs are compared:
  A  PYTHONHASHSEED=0,    1 process
  B  PYTHONHASHSEED=777, 16 processes (other partition of the indices, machine under load)
  C  PYTHONHASHSEED=31,   4 processes, blessed.Terminal construction memo switched off
A mismatch is a harness defect (exit 1).
"""

import os
import subprocess
import sys
from concurrent.futures import ThreadPoolExecutor

VERIF = os.path.dirname(os.path.dirname(os.path.abspath(__file__)))
CHECK = os.path.join(VERIF, "check")


def _digests(prop, tier, idxs, env_extra):
    env = dict(os.environ)
    env.update(env_extra)
    r = subprocess.run([CHECK, prop, "--tier", tier, "--digests", ",".join(map(str, idxs))],
                       capture_output=True, text=True, env=env, timeout=3600)
    out = {}
    for line in r.stdout.splitlines():
        if line.startswith("DIGEST "):
            _, i, d = line.split()
            out[int(i)] = d
    if len(out) != len(idxs):
        sys.stderr.write(r.stderr[-2000:])
    return out


def _setting(prop, tier, idxs, nproc, env_extra):
    parts = [idxs[k::nproc] for k in range(nproc)]
    parts = [p for p in parts if p]
    out = {}
    with ThreadPoolExecutor(max_workers=len(parts)) as ex:
        for d in ex.map(lambda p: _digests(prop, tier, p, env_extra), parts):
            out.update(d)
    return out


def _c08_replay_equivalence(n):
    """first execution (scheduler PRNG, decisions recorded) == replay of the recorded decision list"""
    sys.path.insert(0, VERIF)
    from sim import seams  # noqa: F401
    from sim import plan as planmod
    import sim.world as W
    from checks import c08
    bad = 0
    ndec = 0
    for i in range(n):
        p = c08.gen_plan(planmod.seed_for("C08", "quick", 0, i), "quick", i)
        holder = []
        orig = W.Sched.__init__

        def init(self, cfg, orig=orig):
            orig(self, cfg)
            holder.append(self)
        W.Sched.__init__ = init
        try:
            r1 = c08.run_plan(planmod.clone(p))
        finally:
            W.Sched.__init__ = orig
        d = holder[-1].decisions
        ndec += len(d)
        q = planmod.clone(p)
        q["sched"] = {"mode": "list", "decisions": [list(x) for x in d]}
        r2 = c08.run_plan(q)
        if r1["digest"] != r2["digest"]:
            bad += 1
    print("C08 replay equivalence: %d plans, %d recorded scheduling decisions, %d mismatches" % (n, ndec, bad))
    return bad


def run(argv):
    n = 400
    props = ["C02", "C03", "C07", "C08", "C12", "C18"]
    tier = "quick"
    for a in argv:
        if a.startswith("--n="):
            n = int(a.split("=")[1])
        elif a.startswith("--tier="):
            tier = a.split("=")[1]
        elif not a.startswith("-"):
            props = [a]
    rc = 0
    for prop in props:
        idxs = list(range(0, n * 3, 3))
        a = _setting(prop, tier, idxs, 1, {"PYTHONHASHSEED": "0"})
        b = _setting(prop, tier, idxs, 16, {"PYTHONHASHSEED": "777"})
        c = _setting(prop, tier, idxs, 4, {"PYTHONHASHSEED": "31", "CURTSIES_VERIF_NO_MEMO": "1"})
        bad_b = [i for i in idxs if a.get(i) is None or a.get(i) != b.get(i)]
        bad_c = [i for i in idxs if a.get(i) is None or a.get(i) != c.get(i)]
        distinct = len(set(a.values()))
        print("%s: %d plans, distinct digests %d, mismatches vs 16-process/other-hashseed: %d, vs no-memo: %d"
              % (prop, len(idxs), distinct, len(bad_b), len(bad_c)))
        if bad_b or bad_c:
            print("   first mismatching indices:", (bad_b + bad_c)[:8])
            rc = 1
    if "C08" in props and _c08_replay_equivalence(min(n, 400)):
        rc = 1
    return rc
