"""Seeded changes written by independent sub-agents (/verif/seeded/<id>/).

  check selftest seeded-add <PROP> <agent dir> <A|B> <id>   confirm (tests pass with the change, demo fails with /
                                                           passes without) in a scratch copy and store it
  check selftest seeded [filter] [--tier=quick] [--runs=N]  run the owning check against every stored change
                                                           (scratch copy outside /repo and /verif, removed afterwards)
"""

import json
import os
import shutil
import subprocess
import sys
import tempfile
import time

VERIF = os.path.dirname(os.path.dirname(os.path.abspath(__file__)))
SEEDED = os.path.join(VERIF, "seeded")
PY = "/venv/bin/python"


def _scratch():
    d = tempfile.mkdtemp(prefix="curtsies-seed-")
    subprocess.run(["git", "-C", "/repo", "worktree", "add", "-q", "--detach", os.path.join(d, "wt"), "HEAD"], check=True)
    return d, os.path.join(d, "wt")


def _drop(d):
    subprocess.run(["git", "-C", "/repo", "worktree", "remove", "--force", os.path.join(d, "wt")], capture_output=True)
    subprocess.run(["git", "-C", "/repo", "worktree", "prune"], capture_output=True)
    shutil.rmtree(d, ignore_errors=True)


def _tests(wt):
    env = dict(os.environ, PYTHONPATH=wt)
    r = subprocess.run([PY, "-m", "pytest", "-q", "-p", "no:cacheprovider", "tests"], cwd=wt, env=env,
                       capture_output=True, text=True)
    tail = r.stdout.strip().splitlines()[-1] if r.stdout.strip() else ""
    return r.returncode == 0, tail


def _demo(wt, demo):
    env = dict(os.environ, PYTHONPATH=wt, CURTSIES_REPO=wt, TERM="xterm-256color")
    r = subprocess.run([PY, demo], cwd=os.path.dirname(demo), env=env, capture_output=True, text=True, timeout=300)
    return r.returncode, (r.stdout + r.stderr)[-600:]


def add(argv):
    prop, src, letter, sid = argv[:4]
    patch = os.path.join(src, "patch%s.diff" % letter)
    demo = os.path.join(src, "demo%s.py" % letter)
    d, wt = _scratch()
    try:
        tmpdemo = os.path.join(d, "demo.py")
        shutil.copy(demo, tmpdemo)
        rc0, out0 = _demo(wt, tmpdemo)
        r = subprocess.run(["git", "-C", wt, "apply", patch], capture_output=True, text=True)
        if r.returncode:
            print("patch does not apply:", r.stderr)
            return 1
        ok, tail = _tests(wt)
        rc1, out1 = _demo(wt, tmpdemo)
        print("demo without change: exit %d | tests with change: %s (%s) | demo with change: exit %d" % (rc0, ok, tail, rc1))
        if rc0 != 0 or not ok or rc1 == 0:
            print("NOT CONFIRMED\n--- demo output without change:\n%s\n--- with change:\n%s" % (out0, out1))
            return 1
        dst = os.path.join(SEEDED, sid)
        os.makedirs(dst, exist_ok=True)
        shutil.copy(patch, os.path.join(dst, "patch.diff"))
        shutil.copy(demo, os.path.join(dst, "demo.py"))
        notes = ""
        np_ = os.path.join(src, "NOTES.md")
        if os.path.exists(np_):
            notes = open(np_).read()
            shutil.copy(np_, os.path.join(dst, "agent_notes.md"))
        meta = {"id": sid, "property": prop, "source": "independent sub-agent given only the property text and a scratch worktree",
                "needs_to_manifest": "see agent_notes.md (change %s)" % letter,
                "confirmed": {"baseline_tests_with_change": tail, "demo_exit_without_change": rc0, "demo_exit_with_change": rc1,
                              "commands": ["git apply patch.diff (scratch worktree of /repo HEAD)",
                                           "PYTHONPATH=<wt> /venv/bin/python -m pytest -q -p no:cacheprovider tests",
                                           "PYTHONPATH=<wt> /venv/bin/python demo.py"]},
                "repo_head": subprocess.run(["git", "-C", "/repo", "rev-parse", "--short", "HEAD"], capture_output=True, text=True).stdout.strip()}
        json.dump(meta, open(os.path.join(dst, "meta.json"), "w"), indent=1)
        print("stored", dst)
        return 0
    finally:
        _drop(d)


def run(argv):
    tier, runs = "quick", None
    flt = [a for a in argv if not a.startswith("-")]
    for a in argv:
        if a.startswith("--tier="):
            tier = a.split("=")[1]
        if a.startswith("--runs="):
            runs = a.split("=")[1]
    rows = []
    for sid in sorted(os.listdir(SEEDED)) if os.path.isdir(SEEDED) else []:
        mp = os.path.join(SEEDED, sid, "meta.json")
        if not os.path.exists(mp):
            continue
        meta = json.load(open(mp))
        if flt and not any(f in sid or f == meta["property"] for f in flt):
            continue
        d, wt = _scratch()
        try:
            r = subprocess.run(["git", "-C", wt, "apply", os.path.join(SEEDED, sid, "patch.diff")], capture_output=True, text=True)
            if r.returncode:
                rows.append((sid, meta["property"], "STALE patch does not apply"))
                continue
            env = dict(os.environ, CURTSIES_REPO=wt, VERIF_REPLAY_DIR=os.path.join(d, "replays"))
            cmd = [os.path.join(VERIF, "check"), meta["property"], "--tier", tier, "--no-evidence", "--quiet", "--fast"]
            if runs:
                cmd += ["--runs", runs]
            t0 = time.time()
            r = subprocess.run(cmd, capture_output=True, text=True, env=env)
            sigs = sorted(set(l.split("replay=")[1].split("/")[-1].split("-")[1] for l in r.stdout.splitlines()
                              if l.startswith("VIOLATION")))
            rows.append((sid, meta["property"], "exit=%d %.0fs %s" % (r.returncode, time.time() - t0, ",".join(sigs))))
            if r.returncode == 2:
                print(r.stdout[-1200:])
        finally:
            _drop(d)
        print("%-34s %-4s %s" % rows[-1], flush=True)
    missed = [r for r in rows if not r[2].startswith("exit=1")]
    print("seeded changes: %d, caught: %d, missed: %d" % (len(rows), len(rows) - len(missed), len(missed)))
    return 0 if not missed else 1
