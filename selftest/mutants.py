"""selftest mutants: apply each catalogue mutant to a scratch copy of /repo
(outside /repo and /verif), confirm it passes the baseline tests, run the owning
property's quick check with CURTSIES_REPO pointing at the copy, expect exit 1."""

import os
import shutil
import subprocess
import sys
import tempfile

VERIF = os.path.dirname(os.path.dirname(os.path.abspath(__file__)))


def run(argv):
    sys.path.insert(0, VERIF)
    from mutants.catalogue import MUTANTS
    only = [a for a in argv if not a.startswith("-")]
    runs = "4000"
    for a in argv:
        if a.startswith("--runs="):
            runs = a.split("=")[1]
    skip_tests = "--skip-tests" in argv
    results = []
    for name, prop, path, old, new in MUTANTS:
        if only and not any(o in name or o == prop for o in only):
            continue
        d = tempfile.mkdtemp(prefix="curtsies-mut-")
        try:
            for sub in ("curtsies", "tests"):
                shutil.copytree(os.path.join("/repo", sub), os.path.join(d, sub))
            for f in ("setup.py", "setup.cfg", "pyproject.toml"):
                if os.path.exists(os.path.join("/repo", f)):
                    shutil.copy(os.path.join("/repo", f), d)
            fp = os.path.join(d, path)
            src = open(fp).read()
            if src.count(old) != 1:
                results.append((name, prop, "STALE (pattern found %d times)" % src.count(old)))
                continue
            open(fp, "w").write(src.replace(old, new))
            tests_ok = True
            if not skip_tests:
                env = dict(os.environ, PYTHONPATH=d)
                r = subprocess.run(["/venv/bin/python", "-m", "pytest", "-q", "-p", "no:cacheprovider", "-x", "tests"],
                                   cwd=d, env=env, capture_output=True, text=True)
                tests_ok = r.returncode == 0 and " passed" in r.stdout
            env = dict(os.environ, CURTSIES_REPO=d, VERIF_REPLAY_DIR=os.path.join(d, "replays"))
            r = subprocess.run([os.path.join(VERIF, "check"), prop, "--tier", "quick", "--runs", runs, "--no-evidence", "--quiet", "--fast"],
                               capture_output=True, text=True, env=env)
            sigs = sorted(set(l.split("replay=")[1].split("/")[-1].split("-")[1] for l in r.stdout.splitlines()
                              if l.startswith("VIOLATION")))
            results.append((name, prop, "exit=%d tests_pass=%s %s" % (r.returncode, tests_ok, ",".join(sigs))))
            if r.returncode == 2:
                print(r.stdout[-1500:])
        finally:
            shutil.rmtree(d, ignore_errors=True)
        print("%-40s %-4s %s" % results[-1], flush=True)
    missed = [r for r in results if not r[2].startswith("exit=1")]
    print("mutants: %d, caught: %d, missed/stale: %d" % (len(results), len(results) - len(missed), len(missed)))
    return 0 if not missed else 1
