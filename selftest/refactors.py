"""selftest refactors: behaviour-preserving changes written by independent sub-agents
(/verif/refactors/<id>/patch.diff).  Every claimed check must stay quiet (exit 0) on each:
the false-alarm side of the sensitivity tests."""

import os
import shutil
import subprocess
import sys
import tempfile
import time

VERIF = os.path.dirname(os.path.dirname(os.path.abspath(__file__)))
RF = os.path.join(VERIF, "refactors")
PROPS = {"win": ["C02", "C07", "C12", "C18"], "inp": ["C03", "C08", "C12"]}


def run(argv):
    flt = [a for a in argv if not a.startswith("-")]
    runs = None
    for a in argv:
        if a.startswith("--runs="):
            runs = a.split("=")[1]
    rows = []
    for rid in sorted(os.listdir(RF)):
        patch = os.path.join(RF, rid, "patch.diff")
        if not os.path.exists(patch) or (flt and not any(f in rid for f in flt)):
            continue
        if rid.startswith("unsupported") and not flt:
            continue      # kept for the record: these end in exit 2 by design (DESIGN.md 12.8)
        d = tempfile.mkdtemp(prefix="curtsies-rf-")
        wt = os.path.join(d, "wt")
        subprocess.run(["git", "-C", "/repo", "worktree", "add", "-q", "--detach", wt, "HEAD"], check=True)
        try:
            r = subprocess.run(["git", "-C", wt, "apply", patch], capture_output=True, text=True)
            if r.returncode:
                rows.append((rid, "-", "STALE patch does not apply"))
                print("%-12s %-4s %s" % rows[-1])
                continue
            env0 = dict(os.environ, PYTHONPATH=wt)
            t = subprocess.run(["/venv/bin/python", "-m", "pytest", "-q", "-p", "no:cacheprovider", "tests"], cwd=wt, env=env0,
                               capture_output=True, text=True)
            tests_ok = t.returncode == 0
            for prop in PROPS.get(rid.split("-")[0], ["C02", "C03", "C07", "C08", "C12", "C18"]):
                env = dict(os.environ, CURTSIES_REPO=wt, VERIF_REPLAY_DIR=os.path.join(d, "replays"))
                cmd = [os.path.join(VERIF, "check"), prop, "--tier", "quick", "--no-evidence", "--quiet"]
                if runs:
                    cmd += ["--runs", runs]
                t0 = time.time()
                r = subprocess.run(cmd, capture_output=True, text=True, env=env)
                lines = [l for l in r.stdout.splitlines() if l.startswith(("VIOLATION", "HARNESS"))]
                rows.append((rid, prop, "exit=%d tests_pass=%s %.0fs %s" % (r.returncode, tests_ok, time.time() - t0, " | ".join(lines)[:300])))
                print("%-12s %-4s %s" % rows[-1], flush=True)
                if r.returncode and os.path.isdir(os.path.join(d, "replays")):
                    keep = os.path.join(VERIF, "replays", "refactor-" + rid)
                    shutil.copytree(os.path.join(d, "replays"), keep, dirs_exist_ok=True)
        finally:
            subprocess.run(["git", "-C", "/repo", "worktree", "remove", "--force", wt], capture_output=True)
            shutil.rmtree(d, ignore_errors=True)
    alarms = [r for r in rows if not r[2].startswith("exit=0")]
    print("refactorings x checks: %d, quiet: %d, alarms: %d" % (len(rows), len(rows) - len(alarms), len(alarms)))
    return 1 if alarms else 0
