#!/bin/sh
# usage: selftest/onepatch.sh <patch.diff> <CHECK> [extra check args]   -- run one check against /repo HEAD + patch in a scratch worktree
set -u
patch=$1; prop=$2; shift 2
d=$(mktemp -d /tmp/curtsies-one-XXXXXX)
git -C /repo worktree add -q --detach "$d/wt" HEAD || exit 2
if ! git -C "$d/wt" apply "$patch"; then echo "STALE patch"; rc=3; else
CURTSIES_REPO="$d/wt" VERIF_REPLAY_DIR="$d/replays" /verif/check "$prop" --tier quick --no-evidence "$@" | grep -a "^VIOLATION\|^HARNESS\|invariant=\|^  {\|tier=" | cut -c1-400
rc=$?
fi
git -C /repo worktree remove --force "$d/wt"; rm -rf "$d"
exit 0
