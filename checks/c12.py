"""C12 -- leaving any curtsies context restores terminal, tty and signal state.

Seeded nesting trees of real Input / FullscreenWindow / CursorAwareWindow / Cbreak /
Nonblocking / Termmode contexts on the simulated tty and terminal, from an arbitrary
initial state; crash points are enumerated per scenario: an exception after every
prefix of every body, KeyboardInterrupt out of every blocked request, EIO inside
every read of the stream, and the normal exit.          DESIGN.md 7.
"""

import hashlib
import json
import os as _os
import random
import signal as _signal
import termios as _termios

from sim import gen, setup, plan as planmod
from sim.kernel import sane_attrs
from sim.world import environment_artefact, HarnessError, StepCap, Quiescent

PROP = "C12"
LEVEL = "fault_enumeration"
COUNTS = {"quick": 10000, "thorough": 600000}
MAX_SECONDS = {"quick": 120, "thorough": 1500}
DET_EVERY = {"quick": 30, "thorough": 300}
SHRINK_BUDGET = 500
LIST_KEYS = ("tree",)

RULE = ("one evaluation = one seeded scenario (a nesting tree of curtsies contexts with bodies of renders, requests, "
        "trigger creation/calls and cursor queries, from a random initial tty/signal/terminal state, as main or non-main "
        "thread; shapes include one object used again in changed surroundings, the same use repeated 3-5 times, a fresh "
        "object per use) executed once normally and once per enumerated crash point: an exception (BaseException / Exception "
        "subclass, SystemExit, KeyboardInterrupt, GeneratorExit) after every prefix of every body, SIGINT under the default "
        "handler at two moments of every blocked request and during a slow cursor query, OSError(EIO) inside every read of "
        "a request, the same fault in every one of the repeated uses. Around every context the state before entering is "
        "compared with the state after leaving (termios attributes, status flags, all signal handlers, signal mask, wake-up "
        "fd, descriptors by identity, cursor visibility, buffers, further terminal modes). distinct = distinct SHA-1 over the event logs of all executions of a scenario; "
        "non-trivial = at least one crash point / fault fired inside an open context")
STATE_DEF = "(stack of open context kinds at the crash point, crash kind, main/non-main, initial O_NONBLOCK, initial wake-up fd present)"
COMPONENTS = {
    "real": ["curtsies.input.Input (__enter__/__exit__, send, _nonblocking_read, ReplacedSigIntHandler, trigger factories)",
             "curtsies.window.FullscreenWindow / CursorAwareWindow", "curtsies.termhelpers.Cbreak / Termmode / Nonblocking",
             "blessed.Terminal", "tty.cfmakecbreak"],
    "stub": ["kernel tty (termios attributes, status flags), pipes, select, fd table: sim.kernel.Kernel",
             "signal.signal/getsignal/set_wakeup_fd and SIGINT delivery: sim.kernel.Signals",
             "terminal (cursor visibility, alternate screen, main buffer): sim.term.TermModel", "virtual clock"],
}
ASSUMPTIONS = [
    "exceptions are injected between operations, out of a blocked select (KeyboardInterrupt) and inside os.read of the stream (EIO); "
    "not at arbitrary bytecodes inside an operation or inside __enter__/__exit__ (DESIGN.md 7)",
    "contexts are nested as distinct objects and re-used sequentially; one object is never entered while already entered; "
    "window contexts are not nested inside window contexts",
    "pipes handed out by threadsafe_event_trigger belong to the Input object, not to the context, and are not counted as leaks",
    "the initial state has a visible cursor and the main screen active",
]
PROBES = ["carried_on_after_exception", "crash_after_prefix", "keyboardinterrupt_from_select", "eio_in_read", "depth_ge_3", "non_main_thread",
          "initial_nonblock_set", "preexisting_wakeup_fd", "hide_cursor_false", "nested_inputs", "input_reused",
          "termmode_reentered", "sigint_event_true", "custom_sigint_handler", "fullscreen_in_scenario", "cursoraware_in_scenario",
          "request_returned_sigint_event", "trigger_pipe_created", "disable_start_stop"]
TRIGGERS = {}


class CrashBase(BaseException):
    pass


class CrashExc(Exception):
    pass


# ------------------------------------------------------------------------------------------
# generation
def _rand_attrs(rng):
    a = sane_attrs()
    if rng.random() < 0.5:
        return a
    flips_i = [_termios.ICRNL, _termios.IXON, _termios.INLCR, _termios.ISTRIP, _termios.IGNCR, _termios.IXOFF,
               getattr(_termios, "IUTF8", 0), _termios.BRKINT]
    flips_o = [_termios.OPOST, _termios.ONLCR, getattr(_termios, "OCRNL", 0)]
    flips_l = [_termios.ECHO, _termios.ICANON, _termios.ISIG, _termios.IEXTEN, _termios.ECHOE, _termios.ECHOK,
               _termios.NOFLSH, _termios.TOSTOP, _termios.ECHONL]
    for f in flips_i:
        if f and rng.random() < 0.3:
            a[0] ^= f
    for f in flips_o:
        if f and rng.random() < 0.3:
            a[1] ^= f
    for f in flips_l:
        if f and rng.random() < 0.3:
            a[3] ^= f
    cc = a[6]
    for i in range(len(cc)):
        if rng.random() < 0.15:
            cc[i] = rng.randrange(256)
    # control modes and line speeds: nothing curtsies has a reason to touch, everything a restore has to keep
    for f in (_termios.CSTOPB, _termios.CLOCAL, _termios.PARENB, _termios.PARODD, _termios.HUPCL):
        if rng.random() < 0.2:
            a[2] ^= f
    if rng.random() < 0.2:
        a[2] = (a[2] & ~_termios.CSIZE) | rng.choice((_termios.CS7, _termios.CS8, _termios.CS6))
    if rng.random() < 0.3:
        a[4] = a[5] = rng.choice((_termios.B9600, _termios.B19200, _termios.B115200))
    return a


class _Gen:
    def __init__(self, rng, h, w, tier):
        self.rng = rng
        self.h, self.w = h, w
        self.n = 0
        self.ops = 0
        self.maxops = 8 if tier == "quick" else 12
        self.input_ids = []

    def new_id(self, prefix):
        self.n += 1
        return "%s%d" % (prefix, self.n)

    def input_args(self):
        r = self.rng
        return {"keynames": r.choice(("curtsies", "curses", "bytes")), "sigint_event": r.random() < 0.5,
                "disable_terminal_start_stop": r.random() < 0.4,
                "paste_threshold": r.choice((None, 9, 9, 3))}

    def node(self, kind, stack, depth, reuse_id=None):
        r = self.rng
        nd = {"ctx": kind, "id": reuse_id or self.new_id(kind[0].lower()), "body": []}
        if kind == "Input":
            nd["args"] = self.input_args()
            self.input_ids.append(nd["id"])
        elif kind == "FullscreenWindow":
            nd["args"] = {"hide_cursor": r.random() < 0.7}
        elif kind == "CursorAwareWindow":
            nd["args"] = {"hide_cursor": r.random() < 0.7, "keep_last_line": r.random() < 0.5,
                          "callback": r.random() < 0.7}      # without extra_bytes_callback, type-ahead makes a query raise
        elif kind == "Termmode":
            nd["args"] = {"attrs": _rand_attrs(r)}
        nd["body"] = self.body(stack + [nd], depth + 1)
        return nd

    def body(self, stack, depth):
        r = self.rng
        items = []
        n = r.choice((0, 1, 1, 2, 2, 3, 4))
        for _ in range(n):
            if self.ops >= self.maxops:
                break
            if depth < 4 and r.random() < 0.3:
                sub = self.sub(stack, depth)
                if sub is not None:
                    items.append(sub)
                    continue
            op = self.op(stack)
            if op is not None:
                items.append(op)
                self.ops += 1
        return items

    def sub(self, stack, depth):
        r = self.rng
        kinds = [s["ctx"] for s in stack]
        open_ids = set(s["id"] for s in stack)
        nwin = sum(1 for k in kinds if k in ("FullscreenWindow", "CursorAwareWindow"))
        choices = ["Input", "Input", "Cbreak", "Nonblocking", "Termmode"]
        if nwin == 0:
            choices += ["FullscreenWindow", "CursorAwareWindow"]
        elif nwin == 1 and "FullscreenWindow" not in kinds:
            choices += ["FullscreenWindow"]      # e.g. a full-screen pager opened from inside a CursorAwareWindow session
        cb = [s for s in stack if s["ctx"] == "Cbreak"
              and not any(t["ctx"] == "TermmodeOf" and t["of"] == s["id"] for t in stack)]
        if cb:
            choices += ["TermmodeOf", "TermmodeOf"]
        kind = r.choice(choices)
        if kind == "TermmodeOf":
            nd = {"ctx": "TermmodeOf", "id": self.new_id("t"), "of": cb[-1]["id"], "body": []}
            nd["body"] = self.body(stack + [nd], depth + 1)
            return nd
        return self.node(kind, stack, depth)

    def op(self, stack):
        r = self.rng
        inputs = [s for s in stack if s["ctx"] == "Input"]
        wins = [s for s in stack if s["ctx"] in ("FullscreenWindow", "CursorAwareWindow")]
        caw = [s for s in stack if s["ctx"] == "CursorAwareWindow"]
        cands = ["noop"]
        if inputs:
            cands += ["send"] * 4 + ["trigger"] * 2
        if wins:
            cands += ["render"] * 3
        if caw:
            cands += ["query"]
        k = r.choice(cands)
        if k == "noop":
            return {"op": "noop"}
        if k == "toggle_nonblock":
            return {"op": "toggle_nonblock"}
        if k == "send":
            t = r.choice((0, 0.01, 1.5, None))
            st = {"op": "send", "on": inputs[-1]["id"] if r.random() < 0.8 else r.choice(inputs)["id"], "timeout": t,
                  "arrive": "", "arrive_delay": None, "sigint_delay": None}
            m = r.random()
            data = r.choice((b"a", b"\x1b[A", b"hello", b"\xc3\xa9", b"x" * 20, b"\x1b", b"\xe2\x82\xac", b"\x1b[15~",
                             b"\xc3\x28", b"ab\xff"))
            if len(data) > 1 and r.random() < 0.25:
                st["arrive_split"] = r.randint(1, len(data) - 1)    # the key arrives in two pieces
            if m < 0.35:
                st["arrive"] = data.hex()                      # already there
            elif m < 0.65:
                st["arrive"] = data.hex()
                st["arrive_delay"] = r.choice((0.001, 0.5, 7.0))  # arrives while blocked (or after the timeout)
            elif m < 0.8:
                st["sigint_delay"] = r.choice((0.0005, 0.3))      # SIGINT while blocked
            if t is None and not st["arrive"]:
                # a request without time-out always has input on its way: a SIGINT alone wakes it only
                # under some handler configurations (and never on a non-main thread)
                st["arrive"] = data.hex()
                st["arrive_delay"] = 0.75
            return st
        if k == "trigger":
            return {"op": "trigger", "on": r.choice(inputs)["id"], "kind": r.choice(("threadsafe", "event", "scheduled")),
                    "call": r.random() < 0.7}
        if k == "render":
            wnode = wins[-1]
            last = getattr(self, "last_render", None)
            if last is not None and last["on"] == wnode["id"] and r.random() < 0.25:
                return planmod.clone(last)          # the very same frame again
            n = r.randint(0, self.h)
            rows = [gen.gen_row(r, r.randint(0, self.w), 0.6) for _ in range(n)]
            cr = r.randrange(n) if n else 0
            self.last_render = {"op": "render", "on": wnode["id"], "rows": rows, "cursor": [cr, r.randrange(self.w)]}
            return planmod.clone(self.last_render)
        q = {"op": "query", "on": caw[-1]["id"], "typeahead": "", "reply_delay": r.choice((0, 0, 0, 0.3))}
        if r.random() < 0.35:
            q["typeahead"] = r.choice((b"a", b"ls\n", b"\x1b[A", b"\xc3\xa9")).hex()
        return q


def gen_plan(seed, tier, index=0, avoid=()):
    rng = random.Random(seed)
    h, w = rng.randint(1, 6), rng.randint(1, 9)
    g = _Gen(rng, h, w, tier)
    shape = rng.random()
    tree = []
    repeat = 0
    if shape < 0.15:
        nd = g.node("FullscreenWindow", [], 0)
        if not any("ctx" in it and it["ctx"] == "Input" for it in nd["body"]):
            nd["body"].append(g.node("Input", [nd], 1))
        tree = [nd]
    elif shape < 0.3:
        nd = g.node("CursorAwareWindow", [], 0)
        if not any("ctx" in it and it["ctx"] == "Input" for it in nd["body"]):
            nd["body"].append(g.node("Input", [nd], 1))
        tree = [nd]
    elif shape < 0.4:
        nd = g.node("Cbreak", [], 0)
        t = {"ctx": "TermmodeOf", "id": g.new_id("t"), "of": nd["id"], "body": []}
        t["body"] = g.body([nd, t], 2)
        nd["body"].insert(rng.randint(0, len(nd["body"])), t)
        tree = [nd]
    elif shape < 0.46:
        first = g.node("Input", [], 0)
        tree = [first]
        for _ in range(rng.randint(1, 3)):
            again = {"ctx": "Input", "id": first["id"], "args": first["args"], "body": g.body([first], 1)}
            tree.append(again)
    elif shape < 0.52:
        # the very same use of one object several times over, each time caught by the application when it is left
        # by an exception ("repeated use leaks no file descriptors": the fault variants below repeat in every use)
        first = g.node(rng.choice(("Input", "Input", "Input", "CursorAwareWindow", "Cbreak")), [], 0)
        repeat = rng.randint(3, 5)
        tree = [{"ctx": "Try", "id": g.new_id("y"), "body": [_fresh_fullscreen(planmod.clone(first), g)]} for _ in range(repeat)]
    elif shape < 0.64:
        outer = g.node("Input", [], 0)
        inner = g.node("Input", [outer], 1)
        outer["body"].insert(rng.randint(0, len(outer["body"])), inner)
        if rng.random() < 0.7:
            outer["body"].append({"op": "send", "on": outer["id"], "timeout": 0.5, "arrive": "", "arrive_delay": None,
                                  "sigint_delay": rng.choice((None, 0.1))})
        tree = [outer]
    elif shape < 0.68:
        # the README pattern: a fresh object for every use (`with Input() as ...:` in a loop), dropped afterwards.
        # What an object that no longer exists left open can never be closed: "repeated use leaks no descriptors"
        first = g.node(rng.choice(("Input", "Input", "Input", "CursorAwareWindow", "Cbreak")), [], 0)
        repeat = rng.randint(3, 5)
        for _ in range(repeat):
            tree.append({"ctx": "Try", "id": g.new_id("y"), "body": [_fresh_ids(planmod.clone(first), g)]})
            tree.append({"op": "drop_objects"})
    else:
        for _ in range(rng.choice((1, 1, 2, 3))):
            kind = rng.choice(("Input", "Input", "FullscreenWindow", "CursorAwareWindow", "Cbreak", "Nonblocking", "Termmode"))
            tree.append(g.node(kind, [], 0))
    if rng.random() < 0.35 and not repeat:
        # an object is used a second time - in surroundings that differ from those of its first use (another
        # nesting depth, tty attributes or status flags changed in between): what it saved the first time is stale
        found = []

        def collect(it, stack, is_ctx):
            if is_ctx and it["ctx"] in ("Input", "Cbreak", "Nonblocking", "Termmode", "CursorAwareWindow"):
                found.append(it)
        _walk(tree, collect)
        if found:
            first = rng.choice(found)
            g.ops = 0
            again = {"ctx": first["ctx"], "id": first["id"], "body": []}
            if "args" in first:
                again["args"] = first["args"]
            k = rng.random()
            if k < 0.4:
                again["body"] = g.body([again], 1)
                tree.append(again)
            else:
                wrap = g.node(rng.choice(("Cbreak", "Termmode", "Nonblocking")), [], 0)
                wrap["body"] = []
                again["body"] = g.body([wrap, again], 2)
                wrap["body"] = [again]
                tree.append(wrap)
            if rng.random() < 0.4:
                tree.insert(len(tree) - 1, {"op": "toggle_echo"})
    if rng.random() < 0.25 and not repeat:
        # between two uses the application itself flips O_NONBLOCK on the stream (only outside every context:
        # what a context should restore when the flag is changed under it is not defined)
        tree.insert(rng.randint(0, len(tree)), {"op": "toggle_nonblock"})
    if rng.random() < 0.3 and tree and not repeat:
        after = [g.node(rng.choice(("Input", "Input", "Cbreak", "Nonblocking", "CursorAwareWindow")), [], 0)]
        if rng.random() < 0.5 and any(n.get("ctx") == "Input" for n in tree):
            first = [n for n in tree if n.get("ctx") == "Input"][0]
            g.ops = 0
            after.append({"ctx": "Input", "id": first["id"], "args": first["args"], "body": g.body([first], 1)})
        tree = [{"ctx": "Try", "id": g.new_id("y"), "body": tree}] + after
    flags = _os.O_RDWR
    if "initial_nonblock" not in avoid and rng.random() < 0.3:
        flags |= _os.O_NONBLOCK
    if rng.random() < 0.3:
        flags |= _os.O_APPEND
    cfg = {"h": h, "w": w, "tty_attrs": _rand_attrs(rng), "tty_flags": flags,
           "sigint_initial": rng.choice(("default", "default", "custom", "ign", "dfl")),
           "platform": "darwin" if rng.random() < 0.1 else "linux",
           "keynames_enum": rng.random() < 0.3,
           "construct_early": rng.random() < 0.3,
           "wakeup_initial": ("wakeup_initial" not in avoid) and rng.random() < 0.25,
           "app_main": rng.random() < 0.8,
           "pre_lines": rng.randint(0, h),
           "out_buffer": rng.choice(("none", "line", "block", "block"))}
    return {"prop": PROP, "seed": seed, "cfg": cfg, "tree": tree, "crash": None, "enumerate": True, "repeat": repeat}


# ------------------------------------------------------------------------------------------
def _walk(items, fn, stack=()):
    for it in items:
        if "ctx" in it:
            fn(it, stack, True)
            _walk(it["body"], fn, stack + (it,))
        else:
            fn(it, stack, False)


def valid(p):
    ok = [True]
    seen_fs = set()

    def chk(it, stack, is_ctx):
        ids = [s["id"] for s in stack]
        kinds = [s["ctx"] for s in stack]
        if is_ctx:
            if it["id"] in ids:
                ok[0] = False
            if it["ctx"] in ("FullscreenWindow", "CursorAwareWindow"):
                if it["ctx"] == "CursorAwareWindow" and any(k in ("FullscreenWindow", "CursorAwareWindow") for k in kinds):
                    ok[0] = False
                if it["ctx"] == "FullscreenWindow" and "FullscreenWindow" in kinds:
                    ok[0] = False
                if it["ctx"] == "FullscreenWindow":
                    if it["id"] in seen_fs:
                        ok[0] = False
                    seen_fs.add(it["id"])
            if it["ctx"] == "TermmodeOf":
                if it["of"] not in ids or any(t["ctx"] == "TermmodeOf" and t["of"] == it["of"] for t in stack):
                    ok[0] = False
        else:
            if "on" in it and it["on"] not in ids:
                ok[0] = False
            if it["op"] == "send" and it["timeout"] is None and not it["arrive"]:
                ok[0] = False
    _walk(p["tree"], chk)
    c = p["cfg"]
    if c["h"] < 1 or c["w"] < 1:
        return False
    return ok[0]


def freeze(p):
    p["enumerate"] = False
    return p


def _simp(p):
    # unwrap / drop nested items anywhere in the tree
    paths = []

    def collect(items, path):
        for i, it in enumerate(items):
            paths.append(path + [i])
            if "ctx" in it:
                collect(it["body"], path + [i, "body"])
    collect(p["tree"], ["tree"])
    for path in reversed(paths):
        q = planmod.clone(p)
        cur = q
        for k in path[:-1]:
            cur = cur[k]
        it = cur[path[-1]]
        del cur[path[-1]]
        yield q
        if "ctx" in it and it["body"]:
            q = planmod.clone(p)
            cur = q
            for k in path[:-1]:
                cur = cur[k]
            cur[path[-1]:path[-1] + 1] = it["body"]      # unwrap: keep the body, drop the context
            yield q
    c = p["cfg"]
    for key, simple in (("platform", "linux"), ("keynames_enum", False), ("construct_early", False)):
        if c.get(key, simple) != simple:
            q = planmod.clone(p)
            q["cfg"][key] = simple
            yield q
    for key, simple in (("sigint_initial", "default"), ("wakeup_initial", False), ("app_main", True),
                        ("tty_flags", _os.O_RDWR), ("pre_lines", 0)):
        if c[key] != simple:
            q = planmod.clone(p)
            q["cfg"][key] = simple
            yield q
    if c["tty_attrs"] != sane_attrs():
        q = planmod.clone(p)
        q["cfg"]["tty_attrs"] = sane_attrs()
        yield q

    def simplify_ops(items, path):
        for i, it in enumerate(items):
            if "ctx" in it:
                for k, v in (it.get("args") or {}).items():
                    simple = {"keynames": "curtsies", "sigint_event": False, "disable_terminal_start_stop": False,
                              "paste_threshold": 9, "hide_cursor": True, "keep_last_line": False}.get(k, v)
                    if v != simple:
                        yield path + [i, "args", k], simple
                yield from simplify_ops(it["body"], path + [i, "body"])
            elif it["op"] == "render" and it["rows"]:
                yield path + [i, "rows"], []
            elif it["op"] == "send":
                if it["arrive"] and it["arrive"] != "61":
                    yield path + [i, "arrive"], "61"
    for path, val in list(simplify_ops(p["tree"], ["tree"])):
        q = planmod.clone(p)
        cur = q
        for k in path[:-1]:
            cur = cur[k]
        cur[path[-1]] = val
        if path[-1] == "rows":
            cur["cursor"] = [0, 0]
        yield q


SIMPLIFIERS = (_simp,)


# ------------------------------------------------------------------------------------------
def _count_points(p):
    """crash points: before every op and at the end of every body (pre-order ordinals)"""
    n = [0]
    sends = []

    def walk(items):
        for it in items:
            if it.get("ctx") == "Try":
                walk(it["body"])
            elif "ctx" in it:
                walk(it["body"])
                n[0] += 1          # end of this body
            elif it["op"] == "drop_objects":
                pass
            else:
                if it["op"] == "send":
                    sends.append(n[0])
                n[0] += 1
    walk(p["tree"])
    return n[0], sends


def _variants(p, info):
    out = []
    npoints, _ = _count_points(p)
    for k in range(npoints):
        q = planmod.clone(p)
        q["crash"] = {"at": k, "kind": "base" if k % 2 == 0 else "exc"}
        out.append(q)
    # once more with other kinds at some of the points: the other one of the two, and the exceptions applications
    # really end with - sys.exit() inside the contexts, ^C between two operations, a generator being closed
    for n_, k in enumerate(range(0, npoints, 2)):
        q = planmod.clone(p)
        q["crash"] = {"at": k, "kind": ("exc" if k % 2 == 0 else "base", "systemexit", "kbint", "generatorexit")[n_ % 4]}
        out.append(q)
    for j in info.get("queries", ()):
        q = planmod.clone(p)
        q["crash"] = {"sigint_at_query": j}
        out.append(q)
    for j in info["blocked_sends"]:
        # SIGINT at more than one moment of the blocked request: right after it blocks, and late
        for delay in (0.0001, "late"):
            q = planmod.clone(p)
            q["crash"] = {"sigint_at_send": j, "delay": delay}
            out.append(q)
    for j in info["reading_sends"]:
        for k in range(1, min(info.get("reads_in_send", {}).get(str(j), 1), 6) + 1):
            q = planmod.clone(p)
            q["crash"] = {"eio_at_send": j, "eio_read": k}      # the k-th read of the stream inside that request
            out.append(q)
    rep = p.get("repeat") or 0
    if rep and len([t_ for t_ in p["tree"] if t_.get("ctx") == "Try"]) == rep and npoints % rep == 0:
        # the same fault in every one of the identical uses
        per = npoints // rep
        _, sends = _count_points(p)
        nsend = len(sends) // rep if len(sends) % rep == 0 else 0
        for k in range(per):
            q = planmod.clone(p)
            q["crash"] = {"at_rel": k, "kind": "exc" if k % 2 == 0 else "base", "every_use": True}
            out.append(q)
        for j in [j for j in sorted(set(info["blocked_sends"])) if nsend and j < nsend]:
            for delay in (0.0001, "late"):
                q = planmod.clone(p)
                q["crash"] = {"sigint_at_send_rel": j, "delay": delay, "every_use": True}
                out.append(q)
        for j in [j for j in sorted(set(info["reading_sends"])) if nsend and j < nsend]:
            for k in range(1, min(info.get("reads_in_send", {}).get(str(j), 1), 3) + 1):
                q = planmod.clone(p)
                q["crash"] = {"eio_at_send_rel": j, "eio_read": k, "every_use": True}
                out.append(q)
        nq = len(info.get("queries", ())) // rep if len(info.get("queries", ())) % rep == 0 else 0
        for j in range(nq):
            q = planmod.clone(p)
            q["crash"] = {"sigint_at_query_rel": j, "every_use": True}
            out.append(q)
        for k in range(per):
            q = planmod.clone(p)
            q["crash"] = {"at_rel": k, "kind": ("systemexit", "kbint", "generatorexit")[k % 3], "every_use": True}
            out.append(q)
    for q in out:
        q["enumerate"] = False
    return out


def run_plan(p, keep_log=False):
    res = _run_one(p, keep_log)
    res["executions"] = 1
    if not p.get("enumerate") or res["error"] or res["violation"]:
        if res["violation"] and p.get("enumerate"):
            res["violation"]["concrete_plan"] = freeze(planmod.clone(p))
        return res
    hh = hashlib.sha1(res["digest"].encode())
    for q in _variants(p, res["info"]):
        r2 = _run_one(q, False)
        res["executions"] += 1
        hh.update(r2["digest"].encode())
        for k, v in r2["probes"].items():
            res["probes"][k] = res["probes"].get(k, 0) + v
        for k, v in r2["faults"].items():
            res["faults"][k] = res["faults"].get(k, 0) + v
        res["states"] |= r2["states"]
        res["sim_s"] += r2["sim_s"]
        res["nsteps"] += r2["nsteps"]
        res["nontrivial"] = res["nontrivial"] or r2["nontrivial"]
        if r2["error"]:
            res["error"] = r2["error"]
            res["error_plan"] = q
            break
        if r2["violation"]:
            res["violation"] = r2["violation"]
            res["violation"]["concrete_plan"] = q
            break
    res["digest"] = hh.hexdigest()
    return res


def _fullscreen_ids(items, out):
    for it in items:
        if "ctx" in it:
            if it["ctx"] == "FullscreenWindow":
                out.append(it["id"])
            _fullscreen_ids(it["body"], out)
    return out


def _rename(items, mapping):
    for it in items:
        if it.get("id") in mapping:
            it["id"] = mapping[it["id"]]
        if it.get("on") in mapping:
            it["on"] = mapping[it["on"]]
        if "ctx" in it:
            _rename(it["body"], mapping)


def _all_ids(items, out):
    for it in items:
        if "ctx" in it:
            out.append(it["id"])
            _all_ids(it["body"], out)
    return out


def _fresh_ids(node, g):
    """a copy of a use in which every object is a new one"""
    mapping = dict((i, g.new_id(i[0])) for i in _all_ids([node], []))
    _rename([node], mapping)
    for it in _walk_items([node]):
        if it.get("of") in mapping:
            it["of"] = mapping[it["of"]]
    return node


def _walk_items(items):
    for it in items:
        yield it
        if "ctx" in it:
            for x in _walk_items(it["body"]):
                yield x


def _fresh_fullscreen(node, g):
    """a FullscreenWindow object can be entered only once (its blessed fullscreen() context is made in __init__):
    every copy of a body gets window objects of its own"""
    ids = _fullscreen_ids([node], [])
    _rename([node], dict((i, g.new_id("f")) for i in ids))
    return node


def _use_key(body, how):
    """what a use of an object consisted of, for 'the same use again' (one-shot window objects by position)"""
    b = planmod.clone(body)
    _rename(b, dict((i, "F%d" % n) for n, i in enumerate(_fullscreen_ids(b, []))))
    return (json.dumps(b, sort_keys=True), how)


def _same_handlers(a, b):
    return all(_same_handler(a.get(n_, _signal.SIG_DFL), b.get(n_, _signal.SIG_DFL)) for n_ in set(a) | set(b))


def _same_handler(a, b):
    """the same SIGINT handler: the same object, or two bound-method objects of one method of one object (every
    `self.sigint_handler` makes a new one; they are equal and behave identically)"""
    if a is b:
        return True
    try:
        return type(a) is type(b) and hasattr(a, "__self__") and a.__self__ is b.__self__ and a.__func__ is b.__func__
    except AttributeError:
        return False


def _violate(res, name, step, detail):
    if res["violation"] is None:
        res["violation"] = {"invariant": name, "step": step, "detail": detail}


def _custom_handler(signum, frame):
    pass


_custom_handler.sim_name = "app_sigint_handler"


class _Exec:
    def __init__(self, p, s, res):
        self.p, self.s, self.res = p, s, res
        self.world, self.kernel, self.term = s.world, s.kernel, s.term
        self.objs = {}
        self.vals = {}
        self.point = 0
        self.send_no = 0
        self.trigger_fds = set()
        self.crash = p.get("crash") or {}
        self.open_kinds = []
        self.nb0 = bool(s.tty.flags & _os.O_NONBLOCK)
        self.info = {"blocked_sends": [], "reading_sends": [], "reads_in_send": {}, "queries": []}
        self.callbacks = {}
        self.uses = {}            # object id -> completed enter/exit cycles
        self.owned = {}           # object id -> descriptors it opened (in any use or operation) and still holds
        self.ever_owned = set()   # every descriptor number that was ever attributed to one of the objects
        self.counts = {}          # object id -> number of descriptors held after each completed use
        self.growths = {}         # object id -> uses that repeated the previous use exactly and still held more
        self.last_use = {}        # object id -> (body, how it was left) of the previous use
        self.frames = []          # open contexts, outermost first: {"id", "excused"}
        self.orphans = {}         # id of an object that no longer exists -> descriptors it opened that are still open
        self.use_base = self.use_send_base = self.use_query_base = 0     # first crash point / request / query of the current Try part
        self.query_no = 0

    # ---- state snapshots ------------------------------------------------------------------
    def snap(self):
        k, t = self.kernel, self.term
        return {"attrs": [list(x) if isinstance(x, list) else x for x in self.s.tty.attrs],
                "flags": self.s.tty.flags,
                "sigint": k.sig.handlers.get(_signal.SIGINT),
                "wakeup_fd": k.sig.wakeup_fd,
                "handlers": dict((n_, h_) for n_, h_ in k.sig.handlers.items() if n_ != _signal.SIGINT),
                "sigmask": frozenset(k.sig.blocked),
                "fds": [fd for fd in k.open_files() if fd not in self.trigger_fds],
                "cursor_visible": t.cursor_visible,
                "active": t.active,
                "modes": (t.autowrap, t.top, t.bot == t.h - 1, t.pen),
                "other_modes": frozenset(t.other_modes),
                "main": t.snapshot_screen("main"),
                "main_cursor": (t.r, t.c, t.pending) if t.active == "main" else t.saved["main"][:3] if t.saved["main"] else None,
                "scrollback": len(t.scrollback)}

    LIGHT = ("attrs", "flags", "sigint", "wakeup_fd", "cursor_visible", "active", "modes", "handlers", "sigmask", "other_modes")

    def snap_light(self):
        k, t = self.kernel, self.term
        return {"attrs": [list(x) if isinstance(x, list) else x for x in self.s.tty.attrs],
                "flags": self.s.tty.flags,
                "sigint": k.sig.handlers.get(_signal.SIGINT),
                "wakeup_fd": k.sig.wakeup_fd,
                "handlers": dict((n_, h_) for n_, h_ in k.sig.handlers.items() if n_ != _signal.SIGINT),
                "sigmask": frozenset(k.sig.blocked),
                "fds": [fd for fd in k.open_files() if fd not in self.trigger_fds],
                "cursor_visible": t.cursor_visible,
                "active": t.active,
                "modes": (t.autowrap, t.top, t.bot == t.h - 1, t.pen),
                "other_modes": frozenset(t.other_modes)}

    def attribute_op(self, target, pre):
        """an operation addressed to the object `target` has just run.  Descriptors it opened are that object's; and
        where it ran inside contexts entered later than its object, state it changed is not something those
        inner contexts' entering changed - restoring it is the business of the object it was addressed to"""
        post = self.snap_light()
        new = [fd for fd in post["fds"] if fd not in pre["fds"]]
        if new:
            self.owned.setdefault(target, set()).update(new)
            self.ever_owned.update(new)
        idx = [i for i, f in enumerate(self.frames) if f["id"] == target]
        if idx and idx[-1] < len(self.frames) - 1:
            changed = [c for c in self.LIGHT if (not _same_handler(pre[c], post[c]) if c == "sigint" else
                                                 not _same_handlers(pre[c], post[c]) if c == "handlers" else pre[c] != post[c])]
            if changed:
                self.world.probe("outer_object_changed_state_inside_inner_context")
                for f in self.frames[idx[-1] + 1:]:
                    f["excused"].update(changed)

    def compare(self, before, node, how, excused=()):
        after = self.snap()
        kind = node["ctx"]
        where = {"context": kind, "id": node["id"], "left_by": how, "open_outside": list(self.open_kinds)}
        fds_after = [fd for fd in after["fds"]]
        if after["attrs"] != before["attrs"] and "attrs" not in excused:
            _violate(self.res, "tty_attributes_not_restored", self.point,
                     dict(where, before=before["attrs"], after=after["attrs"]))
        if after["flags"] != before["flags"] and "flags" not in excused:
            _violate(self.res, "status_flags_not_restored", self.point,
                     dict(where, before=before["flags"], after=after["flags"]))
        if not _same_handler(after["sigint"], before["sigint"]) and "sigint" not in excused:
            _violate(self.res, "sigint_handler_not_restored", self.point,
                     dict(where, before=_name(before["sigint"]), after=_name(after["sigint"])))
        if after["wakeup_fd"] != before["wakeup_fd"] and "wakeup_fd" not in excused:
            _violate(self.res, "wakeup_fd_not_restored", self.point,
                     dict(where, before=before["wakeup_fd"], after=after["wakeup_fd"]))
        # "restores what entering changed" beyond the components the statement lists by name: the handlers of other
        # signals, the signal mask, further terminal modes (mouse reporting, bracketed paste, ...)
        if not _same_handlers(after["handlers"], before["handlers"]) and "handlers" not in excused:
            diff = sorted(n_ for n_ in set(after["handlers"]) | set(before["handlers"])
                          if not _same_handler(after["handlers"].get(n_, _signal.SIG_DFL), before["handlers"].get(n_, _signal.SIG_DFL)))
            _violate(self.res, "signal_handler_not_restored", self.point,
                     dict(where, signals=[int(n_) for n_ in diff],
                          after=[_name(after["handlers"].get(n_, _signal.SIG_DFL)) for n_ in diff]))
        if after["sigmask"] != before["sigmask"] and "sigmask" not in excused:
            _violate(self.res, "signal_mask_not_restored", self.point,
                     dict(where, before=sorted(before["sigmask"]), after=sorted(after["sigmask"])))
        if after["other_modes"] != before["other_modes"] and "other_modes" not in excused:
            _violate(self.res, "terminal_mode_left_changed", self.point,
                     dict(where, private_modes_before=sorted(before["other_modes"]), after=sorted(after["other_modes"])))
        # "repeated use leaks no file descriptors".  An object may hold descriptors of its own for as long as it
        # lives - created on its first use or lazily on a later one, closed and replaced as it likes; what it may
        # not do is hold more and more of them.  Judged where nothing else can explain growth: a use that repeats
        # the previous use of the same object exactly (same body, left the same way) and after which the object
        # holds more descriptors than before it - for the second time (once can be lazy creation that the first of
        # two identical bodies happened not to need, e.g. because type-ahead was still waiting).
        oid = node["id"]
        delta = [fd for fd in fds_after if fd not in before["fds"]]
        gone = [fd for fd in before["fds"] if fd not in fds_after]
        uses = self.uses.get(oid, 0) + 1
        self.uses[oid] = uses
        others = set()
        for k_, v_ in self.owned.items():
            if k_ != oid:
                others |= v_
        mine = self.owned.setdefault(oid, set())
        new = [fd for fd in delta if fd not in others]
        mine.update(new)
        self.ever_owned.update(new)
        mine.intersection_update(fds_after)
        foreign = [fd for fd in gone if fd not in self.ever_owned]
        if foreign:
            _violate(self.res, "closed_foreign_descriptor", self.point, dict(where, closed=foreign))
        use_key = _use_key(node["body"], how)
        rep = self.last_use.get(oid) == use_key
        self.last_use[oid] = use_key
        hist = self.counts.setdefault(oid, [])
        if hist and rep and len(mine) > hist[-1]:
            self.growths.setdefault(oid, []).append(uses)
            if len(self.growths[oid]) >= 2:
                _violate(self.res, "fd_leak", self.point,
                         dict(where, use_number=uses, held_after_each_use=hist + [len(mine)], still_open=sorted(mine)))
        hist.append(len(mine))
        if kind in ("FullscreenWindow", "CursorAwareWindow"):
            # modes the property does not list (autowrap, scroll region, pen): as found, or the terminal's default
            ok = tuple(a == b or a == d for a, b, d in zip(after["modes"], before["modes"], (True, 0, True, (None, None, 0))))
            if not all(ok) and "modes" not in excused:
                _violate(self.res, "terminal_mode_left_changed", self.point,
                         dict(where, before="autowrap=%s scroll_top=%s full_region=%s pen=%s" % before["modes"],
                              after="autowrap=%s scroll_top=%s full_region=%s pen=%s" % after["modes"]))
            if before["cursor_visible"] and not after["cursor_visible"] and "cursor_visible" not in excused:
                # (inside an enclosing window that hides the cursor, what an inner window leaves is the outer
                # one's business: restore what entering changed)
                _violate(self.res, "cursor_left_hidden", self.point, where)
            if after["active"] != before["active"] and "active" not in excused:
                _violate(self.res, "alternate_screen_not_left", self.point, dict(where, active=after["active"]))
        if kind == "FullscreenWindow" and after["active"] == "main":
            if after["main"] != before["main"] or after["scrollback"] != before["scrollback"]:
                _violate(self.res, "main_screen_touched", self.point,
                         dict(where, diff=gen.diff_grid(before["main"], after["main"])))

    def _send_hit(self, what, j):
        c = self.crash
        return c.get(what) == j or (what + "_rel" in c and j - self.use_send_base == c[what + "_rel"])

    def drop_objects(self, collect):
        """the application lets go of every context object it is not inside of.  Descriptors an object opened that
        are still open once the object is gone can never be closed by anybody"""
        import gc
        import weakref
        inside = set(f["id"] for f in self.frames)
        refs = {}
        for oid in [o_ for o_ in self.objs if o_ not in inside]:
            try:
                refs[oid] = weakref.ref(self.objs[oid])
            except TypeError:
                refs[oid] = None
            del self.objs[oid]
            self.vals.pop(oid, None)
        for key in [k_ for k_ in self.callbacks if k_[0] not in inside]:
            del self.callbacks[key]
        if collect:
            gc.collect()
        self.world.probe("objects_dropped")
        still_open = set(self.kernel.open_files())
        for oid, r in refs.items():
            if r is None or r() is not None:
                self.world.probe("dropped_object_still_referenced")
                continue
            left = self.owned.get(oid, set()) & still_open
            if left:
                self.orphans[oid] = sorted(left)
        if len(self.orphans) >= 2:
            _violate(self.res, "fd_leak", self.point,
                     {"descriptors_left_open_by_objects_that_no_longer_exist": dict(self.orphans)})

    # ---- crash points ------------------------------------------------------------------
    def crash_point(self):
        k = self.point
        self.point += 1
        if self.crash.get("at") == k or ("at_rel" in self.crash and k - self.use_base == self.crash["at_rel"]):
            self.world.fault("crash_after_prefix")
            self.world.probe("crash_after_prefix")
            self.world.log.add("crash", k, self.crash["kind"], list(self.open_kinds))
            self.res["states"].add("%s|%s|%d" % (">".join(self.open_kinds), self.crash["kind"], self.p["cfg"]["app_main"]))
            if self.open_kinds:
                self.res["crashed_inside"] = True
            kind = self.crash["kind"]
            if kind == "systemexit":
                raise SystemExit(3)
            if kind == "kbint":
                raise KeyboardInterrupt()            # ^C between two operations
            if kind == "generatorexit":
                raise GeneratorExit()
            raise (CrashBase if kind == "base" else CrashExc)("injected at point %d" % k)

    # ---- interpretation ------------------------------------------------------------------
    def run_items(self, items):
        for it in items:
            if it.get("ctx") == "Try":
                # the application catches whatever leaves this part and carries on: contexts are used
                # again after one of them was left by an exception
                self.use_base, self.use_send_base, self.use_query_base = self.point, self.send_no, self.query_no
                try:
                    self.run_items(it["body"])
                except (CrashBase, CrashExc, KeyboardInterrupt, OSError, SystemExit, GeneratorExit, ValueError) as e:
                    self.world.log.add("caught", type(e).__name__)
                    self.world.probe("carried_on_after_exception")
                    if not self.crash.get("every_use"):
                        self.crash = {}
            elif "ctx" in it:
                self.run_ctx(it)
            elif it.get("op") == "drop_objects":
                self.drop_objects(True)
                if self.res["violation"]:
                    raise _Stop()
            else:
                self.crash_point()
                self.res["nsteps"] += 1
                self.do_op(it)

    def construct(self, node):
        from curtsies.input import Input
        from curtsies.window import FullscreenWindow, CursorAwareWindow
        from curtsies.termhelpers import Cbreak, Nonblocking, Termmode
        kind = node["ctx"]
        s = self.s
        if kind == "TermmodeOf":
            v = self.vals.get(node["of"])
            return v if hasattr(v, "__enter__") and hasattr(v, "__exit__") else None
        if node["id"] in self.objs:
            if kind == "Input":
                self.world.probe("input_reused")
            return self.objs[node["id"]]
        a = node.get("args") or {}
        files0 = set(self.kernel.open_files())
        if kind == "Input":
            kn = a["keynames"]
            if self.p["cfg"].get("keynames_enum"):
                from curtsies import events as _ev
                if hasattr(_ev, "Keynames"):
                    kn = {"bytes": _ev.Keynames.BYTES, "curtsies": _ev.Keynames.CURTSIES, "curses": _ev.Keynames.CURSES}[kn]
            o = Input(in_stream=s.inp, keynames=kn, paste_threshold=a["paste_threshold"],
                      sigint_event=a["sigint_event"], disable_terminal_start_stop=a["disable_terminal_start_stop"])
            if a["sigint_event"]:
                self.world.probe("sigint_event_true")
            if a["disable_terminal_start_stop"]:
                self.world.probe("disable_start_stop")
        elif kind == "FullscreenWindow":
            o = FullscreenWindow(out_stream=s.out, hide_cursor=a["hide_cursor"])
            self.world.probe("fullscreen_in_scenario")
        elif kind == "CursorAwareWindow":
            o = CursorAwareWindow(out_stream=s.out, in_stream=s.inp, hide_cursor=a["hide_cursor"],
                                  keep_last_line=a["keep_last_line"],
                                  extra_bytes_callback=(lambda b: None) if a.get("callback", True) else None)
            self.world.probe("cursoraware_in_scenario")
        elif kind == "Cbreak":
            o = Cbreak(s.inp)
        elif kind == "Nonblocking":
            o = Nonblocking(s.inp)
        elif kind == "Termmode":
            at = a["attrs"]
            o = Termmode(s.inp, [at[0], at[1], at[2], at[3], at[4], at[5], [bytes([v]) for v in at[6]]])
        else:
            raise HarnessError("unknown context kind %r" % kind)
        if kind in ("FullscreenWindow", "CursorAwareWindow") and not a.get("hide_cursor", True):
            self.world.probe("hide_cursor_false")
        self.objs[node["id"]] = o
        made = [f for f in self.kernel.open_files() if f not in files0 and f not in self.trigger_fds]
        if made:
            # descriptors a constructor opens are the object's (closed by close(), a finalizer, or never)
            self.owned.setdefault(node["id"], set()).update(made)
            self.ever_owned.update(made)
            self.world.probe("constructor_opened_descriptors")
        return o

    def run_ctx(self, node):
        kind = node["ctx"]
        before = self.snap()
        obj = self.construct(node)
        if obj is None:
            self.run_items(node["body"])     # (Cbreak.__enter__ returned nothing to re-enter: just run the body)
            return
        if kind == "Input" and "Input" in self.open_kinds:
            self.world.probe("nested_inputs")
        if kind == "TermmodeOf":
            self.world.probe("termmode_reentered")
        how = "normal exit"
        if kind == "CursorAwareWindow" and not (node.get("args") or {}).get("callback", True) and len(self.s.tty.inq):
            # a window without extra_bytes_callback raises from its own first query when something was typed before
            # it is entered; exceptions out of __enter__ are outside the property: nothing was typed
            del self.s.tty.inq[:]
            self.world.log.add("typeahead_discarded_before_callbackless_window")
        try:
            try:
                val = obj.__enter__()
            except (HarnessError, Quiescent, StepCap):
                raise
            except BaseException as e:
                if environment_artefact(e):
                    raise HarnessError("stub-environment artefact: %s: %s" % (type(e).__name__, e))
                _violate(self.res, "enter_raised", self.point, {"context": kind, "exception": "%s: %s" % (type(e).__name__, e)})
                raise _Stop()
            self.vals[node["id"]] = val
            self.open_kinds.append(kind)
            frame = {"id": node["id"], "excused": set()}
            self.frames.append(frame)
            if len(self.open_kinds) >= 3:
                self.world.probe("depth_ge_3")
            exc = None
            try:
                self.run_items(node["body"])
                self.crash_point()          # the whole body ran: an exception right at its end
            except (HarnessError, _Stop):
                raise
            except BaseException as e:
                if environment_artefact(e):
                    raise HarnessError("stub-environment artefact: %s: %s" % (type(e).__name__, e))
                exc = e
                how = type(e).__name__
            self.open_kinds.pop()
            self.frames.pop()
            try:
                if exc is None:
                    obj.__exit__(None, None, None)
                else:
                    obj.__exit__(type(exc), exc, exc.__traceback__)
            except (HarnessError, Quiescent, StepCap):
                raise
            except BaseException as e2:
                if environment_artefact(e2):
                    raise HarnessError("stub-environment artefact: %s: %s" % (type(e2).__name__, e2))
                _violate(self.res, "exit_raised", self.point, {"context": kind, "left_by": how,
                                                               "exception": "%s: %s" % (type(e2).__name__, e2)})
                raise _Stop()
            self.world.log.add("left", kind, node["id"], how)
            self.compare(before, node, how, frame["excused"])
            if self.res["violation"]:
                raise _Stop()
            if exc is not None:
                raise exc
        finally:
            pass

    def _withdraw_signals(self):
        import heapq
        w = self.world
        if any(ev[2] == "signal" for ev in w.env):
            w.env = [ev for ev in w.env if ev[2] != "signal"]
            heapq.heapify(w.env)
        del self.kernel.sig.pending[:]

    def do_op(self, it):
        if "on" not in it:
            return self._do_op(it)
        pre = self.snap_light()
        try:
            return self._do_op(it)
        finally:
            self.attribute_op(it["on"], pre)

    def _do_op(self, it):
        world, kernel, s = self.world, self.kernel, self.s
        op = it["op"]
        if op == "noop":
            return
        if op == "toggle_echo":
            # the application itself changes the tty mode between two uses of a context object
            at = kernel.tcgetattr(s.fd)
            at[3] ^= _termios.ECHO
            kernel.tcsetattr(s.fd, _termios.TCSANOW, at)
            self.echo_toggles = getattr(self, "echo_toggles", 0) + 1
            world.probe("app_changed_tty_mode")
            return
        if op == "toggle_nonblock":
            # the application itself flips O_NONBLOCK on the stream (contexts must restore what THEY changed,
            # relative to what they found when they were entered)
            kernel.set_blocking(s.fd, bool(s.tty.flags & _os.O_NONBLOCK))
            self.toggles = getattr(self, "toggles", 0) + 1
            world.probe("app_toggled_nonblock")
            return
        if op == "render":
            win = self.objs[it["on"]]
            win.render_to_terminal(gen.build_array(it["rows"], False, self.term.w), tuple(it["cursor"]))
            return
        if op == "query":
            if s.tty.attrs[3] & _termios.ICANON:
                world.log.add("query_skipped_canonical_mode")   # (the scenario itself switched line buffering back on)
                return
            if s.tty.attrs[6][_termios.VMIN] > 1 and s.tty.attrs[6][_termios.VTIME] == 0:
                # (the scenario itself set MIN > 1: the tty does not count as readable before MIN characters are
                # there, and the terminal's report is shorter - an implementation that waits with select would hang)
                world.log.add("query_skipped_min_gt_1")
                return
            j = self.query_no
            self.query_no += 1
            self.info["queries"].append(j)
            ahead = bytes.fromhex(it.get("typeahead", ""))
            if ahead:
                kernel.arrive(s.fd, ahead)      # typed before the terminal's report: raises ValueError without a callback
                world.probe("query_with_typeahead")
            # (with the stream in non-blocking mode the library polls for the report in a loop that never blocks:
            # virtual time would stand still, so the terminal answers at once there)
            blocking = not (s.tty.flags & _os.O_NONBLOCK)
            s.reply_delay = it.get("reply_delay", 0) if blocking else 0
            if blocking and (self.crash.get("sigint_at_query") == j or
                             ("sigint_at_query_rel" in self.crash and j - self.use_query_base == self.crash["sigint_at_query_rel"])):
                # the terminal is slow to answer and ^C arrives while the window waits for the report
                s.reply_delay = 0.5
                world.after(0.0001, "signal", int(_signal.SIGINT))
                world.fault("sigint_during_cursor_query")
            try:
                self.objs[it["on"]].get_cursor_position()
            except KeyboardInterrupt:
                self._withdraw_signals()
                world.probe("keyboardinterrupt_from_cursor_query")
                self.res["crashed_inside"] = True
                raise
            except ValueError:
                world.probe("cursor_query_raised_valueerror")
                self.res["crashed_inside"] = True
                raise
            finally:
                s.reply_delay = 0
                self._withdraw_signals()
            return
        inp = self.objs[it["on"]]
        if op == "trigger":
            key = (it["on"], it["kind"])
            if key not in self.callbacks:
                from curtsies import events
                fds0 = set(kernel.open_files())
                if it["kind"] == "threadsafe":
                    cb = inp.threadsafe_event_trigger(_Ev)
                elif it["kind"] == "event":
                    cb = inp.event_trigger(_Ev)
                else:
                    cb = inp.scheduled_event_trigger(events.ScheduledEvent)
                new = set(kernel.open_files()) - fds0
                if new:          # descriptors a trigger factory opens belong to the Input object, whichever factory
                    self.trigger_fds |= new
                    world.probe("trigger_pipe_created")
                self.callbacks[key] = cb
            if it["call"]:
                if it["kind"] == "scheduled":
                    self.nsched = getattr(self, "nsched", 0) + 1
                    self.callbacks[key](world.now + 0.2 + 0.001 * self.nsched)
                else:
                    self.callbacks[key]()
            return
        # ---- send -----------------------------------------------------------------------
        j = self.send_no
        self.send_no += 1
        data = bytes.fromhex(it["arrive"])
        if data and (s.tty.attrs[3] & _termios.ICANON):
            data += b"\n"       # (the scenario put the tty back into canonical mode: input is delivered by lines)
        elif data and s.tty.attrs[6][_termios.VMIN] > len(data) and s.tty.attrs[6][_termios.VTIME] == 0:
            # (the scenario set MIN > 1: the tty counts as readable only once MIN characters are there)
            data += b"x" * (s.tty.attrs[6][_termios.VMIN] - len(data))
        rest = b""
        if data and it.get("arrive_split") and data == bytes.fromhex(it["arrive"]) and 0 < it["arrive_split"] < len(data):
            data, rest = data[:it["arrive_split"]], data[it["arrive_split"]:]     # the key arrives in two pieces
            world.probe("key_arrives_in_two_pieces")
        if data:
            if it["arrive_delay"] is None:
                kernel.arrive(s.fd, data)
                world.log.add("typed", data)
            else:
                world.after(it["arrive_delay"], "arrive", data.hex())
            if rest:
                world.after((it["arrive_delay"] or 0) + 0.004, "arrive", rest.hex())
        if it["sigint_delay"] is not None:
            world.after(it["sigint_delay"], "signal", int(_signal.SIGINT))
        blocked0 = world.probes.get("select_blocked", 0)
        reads0 = s.tty.read_count
        nb_before = bool(s.tty.flags & _os.O_NONBLOCK)
        if self._send_hit("sigint_at_send", j):
            # SIGINT at an arbitrary moment of the blocked request: KeyboardInterrupt where the default
            # handler is in force, a SigIntEvent / nothing under the other handler configurations
            delay = self.crash.get("delay", 0.0001)
            if delay == "late":
                t = it["timeout"]
                delay = 0.9 * t if t else 0.5
                if it["arrive"] and it["arrive_delay"] is not None:
                    delay = min(delay, 0.9 * it["arrive_delay"])
            world.after(delay, "signal", int(_signal.SIGINT))
            world.fault("sigint_during_blocked_request")
        if self._send_hit("eio_at_send", j):
            kernel.read_faults.setdefault(s.fd, {})[s.tty.read_count + self.crash.get("eio_read", 1)] = ("eio",)
        try:
            try:
                r = inp.send(it["timeout"])
            finally:
                if world.probes.get("select_blocked", 0) > blocked0:
                    self.info["blocked_sends"].append(j)
                if s.tty.read_count > reads0:
                    self.info["reading_sends"].append(j)
                    self.info["reads_in_send"][str(j)] = s.tty.read_count - reads0
                kernel.read_faults.pop(s.fd, None)      # (a read fault meant for this request does not wait for a later read)
                nb = bool(s.tty.flags & _os.O_NONBLOCK)
                world.log.add("after_send", j, nb)
                if nb and not nb_before:
                    _violate(self.res, "stream_left_nonblocking_after_request", self.point,
                             {"request": j, "O_NONBLOCK_before": nb_before, "after": nb, "timeout": it["timeout"]})
        except KeyboardInterrupt:
            self._withdraw_signals()
            world.probe("keyboardinterrupt_from_select")
            self.res["states"].add("%s|kbint|%d" % (">".join(self.open_kinds), self.p["cfg"]["app_main"]))
            self.res["crashed_inside"] = True
            raise
        except BaseException as e:
            if environment_artefact(e):
                raise HarnessError("stub-environment artefact: %s: %s" % (type(e).__name__, e))
            self._withdraw_signals()
            if not isinstance(e, OSError):
                raise
            if self._send_hit("eio_at_send", j):
                world.probe("eio_in_read")
                self.res["states"].add("%s|eio|%d" % (">".join(self.open_kinds), self.p["cfg"]["app_main"]))
                self.res["crashed_inside"] = True
            raise
        from curtsies import events
        if isinstance(r, events.SigIntEvent):
            world.probe("request_returned_sigint_event")
        world.log.add("send_returned", j, r if isinstance(r, (str, bytes, type(None))) else type(r).__name__)
        # a SIGINT scheduled for this request that has not fired yet must not land in a later
        # __enter__/__exit__ (exceptions there are outside the property): it is withdrawn
        self._withdraw_signals()
        if self.res["violation"]:
            raise _Stop()


class _Stop(BaseException):
    pass


def _in_harness(e):
    """did the exception arise without passing through curtsies code (a harness bug)?"""
    tb = e.__traceback__
    while tb is not None:
        if "/curtsies/" in tb.tb_frame.f_code.co_filename:
            return False
        tb = tb.tb_next
    return True


class _Ev:
    def __init__(self, **kw):
        pass


def _name(h):
    from sim.kernel import _hname
    return _hname(h)


def _run_one(p, keep_log):
    cfg = p["cfg"]
    s = setup.make({"h": cfg["h"], "w": cfg["w"], "tty_attrs": cfg["tty_attrs"], "tty_flags": cfg["tty_flags"],
                    "yield_cap": 500000, "out_buffer": cfg.get("out_buffer", "none"),
                    "platform": cfg.get("platform")}, None, keep_log)
    world, term, kernel = s.world, s.term, s.kernel
    res = {"violation": None, "error": None, "probes": world.probes, "faults": world.faults,
           "states": set(), "nsteps": 0, "info": {"blocked_sends": [], "reading_sends": [], "reads_in_send": {}, "queries": []}}
    try:
        # ---- arbitrary initial state ------------------------------------------------------
        for i in range(cfg["pre_lines"]):
            term.feed("line %d\r\n" % i)
        if cfg["sigint_initial"] == "custom":
            kernel.sig.handlers[_signal.SIGINT] = _custom_handler
            world.probe("custom_sigint_handler")
        elif cfg["sigint_initial"] == "ign":
            kernel.sig.handlers[_signal.SIGINT] = _signal.SIG_IGN
        elif cfg["sigint_initial"] == "dfl":
            kernel.sig.handlers[_signal.SIGINT] = _signal.SIG_DFL
        if not cfg["app_main"]:
            world.probe("non_main_thread")
        if cfg["wakeup_initial"]:
            # the application had its own wake-up descriptor before using curtsies
            r0, w0 = kernel.pipe()
            kernel.set_blocking(w0, False)
            kernel.sig.wakeup_fd = w0
            world.probe("preexisting_wakeup_fd")
        if cfg["tty_flags"] & _os.O_NONBLOCK:
            world.probe("initial_nonblock_set")
        ex = _Exec(p, s, res)
        if cfg.get("construct_early"):
            # objects are created up-front and entered later (state captured in a constructor goes stale)
            def early(it, stack, is_ctx):
                if is_ctx and it["ctx"] not in ("Try", "TermmodeOf", "FullscreenWindow"):
                    ex.construct(it)
            _walk(p["tree"], early)
            world.probe("constructed_early")
        first = ex.snap()
        def drive():
            try:
                ex.run_items(p["tree"])
            except _Stop:
                pass
            except (CrashBase, CrashExc, KeyboardInterrupt, SystemExit, GeneratorExit):
                pass
            except (Quiescent, StepCap, HarnessError):
                raise
            except Exception as e:
                if environment_artefact(e):
                    raise HarnessError("stub-environment artefact: %s: %s" % (type(e).__name__, e))
                # an operation failed on its own (e.g. a key-decoding error): for C12 that is one more way of
                # leaving the contexts by exception -- restoration was checked on the way out
                if _in_harness(e):
                    import traceback
                    res["error"] = "exception inside harness code: " + traceback.format_exc(limit=8)
                else:
                    world.probe("unplanned_exception_" + type(e).__name__)

        try:
            if cfg["app_main"]:
                drive()
            else:
                # the application uses curtsies from a real non-main thread (signal.* is refused there,
                # threading.main_thread() says so): the simulated main thread only waits for it
                t = world.spawn("app", drive)
                world.join_all()
                if isinstance(t.exc, HarnessError):
                    raise t.exc
                if t.exc is not None:
                    res["error"] = "app thread ended with %r" % (t.exc,)
        except Quiescent:
            if s.out.pending_out:
                # the library waits for something while output it wrote has never been flushed to the terminal
                _violate(res, "blocked_with_unflushed_output", ex.point,
                         {"unflushed_output": "".join(s.out.pending_out)[:40], "out_buffer": cfg.get("out_buffer", "none")})
            else:
                res["error"] = "scenario blocked forever (plan without a wake-up for a blocking request)"
        except StepCap:
            res["error"] = "step cap exceeded"
        res["info"] = ex.info
        if not res["violation"] and not res["error"]:
            # after its curtsies session the application opens files of its own (they get the recycled descriptor
            # numbers) and lets go of the context objects: a finalizer must not close what is not its own any more
            ra, wa = kernel.pipe()
            mine = [f for f in kernel.open_files() if f.startswith(("fd%d#" % ra, "fd%d#" % wa))]
            ex.drop_objects(bool(p.get("enumerate")))
            if any(f not in kernel.open_files() for f in mine):
                _violate(res, "closed_foreign_descriptor", ex.point,
                         {"closed": mine, "by": "a context object's finalizer, after the object's descriptors had been closed and re-used"})
            for fd_ in (ra, wa):
                if fd_ in kernel.fds:
                    kernel.close(fd_)
        if not res["violation"] and not res["error"]:
            last = ex.snap()
            held = set()
            for v_ in ex.owned.values():
                held |= v_
            last["fds"] = [fd for fd in last["fds"] if fd not in held]
            first["fds"] = [fd for fd in first["fds"] if fd in last["fds"] or fd not in ex.ever_owned]
            if getattr(ex, "toggles", 0) % 2:
                first = dict(first, flags=first["flags"] ^ _os.O_NONBLOCK)      # (the application's own doing)
            if getattr(ex, "echo_toggles", 0) % 2:
                at0 = list(first["attrs"])
                at0[3] ^= _termios.ECHO
                first = dict(first, attrs=at0)
            if not _same_handlers(last["handlers"], first["handlers"]):
                _violate(res, "final_state_differs_signal_handlers", ex.point, {})
            for key in ("attrs", "flags", "wakeup_fd", "fds", "cursor_visible", "active", "sigmask", "other_modes"):
                if last[key] != first[key]:
                    _violate(res, "final_state_differs_" + key, ex.point, {"before": first[key], "after": last[key]})
            if not _same_handler(last["sigint"], first["sigint"]):
                _violate(res, "final_state_differs_sigint", ex.point, {})
    except HarnessError as e:
        res["error"] = "harness: %s" % e
    finally:
        setup.finish(s)
    if term.unknown and not res["error"]:
        res["error"] = "UNMODELLED terminal sequence(s): %r" % term.unknown[:3]
    res["digest"] = world.log.digest()
    res["sim_s"] = world.now - world.t0
    res["nontrivial"] = bool(res.get("crashed_inside"))
    if keep_log:
        res["log"] = world.log.entries
    return res
