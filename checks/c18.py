"""C18 -- cursor position query parses the report exactly; movement is conserved.

Part A: get_cursor_position against a scripted stream extra ++ report ++ trailing with
read faults and arrival timing enumerated per script.
Part B: get_cursor_vertical_diff over render / content-movement / query histories with
nested calls (SIGWINCH handler) enumerated per read ordinal.   DESIGN.md 8.
"""

import random
import re
import signal as _signal
import sys

from sim import gen, setup, plan as planmod
from sim.world import environment_artefact, HarnessError, StepCap, Quiescent

PROP = "C18"
LEVEL = "fault_enumeration"
COUNTS = {"quick": 3500, "thorough": 250000}
MAX_SECONDS = {"quick": 100, "thorough": 1500}
DET_EVERY = {"quick": 30, "thorough": 300}
SHRINK_BUDGET = 500
LIST_KEYS = ("steps",)

RULE = ("one evaluation = one seeded scenario plus all of its enumerated fault variants. Part A scenario: a scripted "
        "stream extra ++ report ++ trailing for get_cursor_position (extra from keypresses, escape sequences and "
        "report look-alike fragments); variants enumerated per script: OSError 1x/3x before each single read ordinal, "
        "before every read, and the three arrival timings of extra (typed ahead / between query and reply / split), "
        "reply immediate or delayed. Part B scenario: a history of renders, vertical content movements and "
        "get_cursor_vertical_diff calls; variants enumerated: a nested call from a SIGWINCH handler at each read "
        "ordinal of each query and between lines of window.py (with and without a further movement), two nested calls, "
        "read faults of several OSError kinds, queries that fail with ValueError and continued use. "
        "distinct = distinct SHA-1 over the event logs of all variants of a scenario; non-trivial = extra bytes, a "
        "read fault, a nested call or a clamped movement occurred")
STATE_DEF = ("A: (extra class: empty/keys/ends-in-ESC/ends-in-digits/ends-in-semicolon/has-lookalike, CSI kind, digits of row, "
             "callback?, trailing?) B: (top_usable_row class, movement sign and clamp, nested count)")
COMPONENTS = {
    "real": ["curtsies.window.CursorAwareWindow (get_cursor_position, get_cursor_vertical_diff, _get_cursor_vertical_diff_once, "
             "render_to_terminal, __enter__/__exit__)", "curtsies.termhelpers.Cbreak", "blessed.Terminal", "re"],
    "stub": ["terminal answering ESC[6n: sim.term.TermModel (Part A: scripted position)", "kernel tty / termios: sim.kernel",
             "in_stream: SimIn (unbuffered read(1), injected OSError)", "signal delivery of SIGWINCH inside SimIn.read: sim.kernel.Signals"],
}
ASSUMPTIONS = [
    "extra never contains a complete report pattern (CSI digits ; digits R): such a look-alike is indistinguishable by protocol",
    "in_stream is unbuffered: read(1) takes one character from the tty queue",
    "content movement is modelled as the terminal moving its cursor row by d (clamped to the screen), which is all the code can observe",
    "a query before any render or previous query has no base row and is not judged for conservation",
]
PROBES = ["extra_nonempty", "extra_ends_esc", "extra_ends_digits", "extra_ends_semicolon", "extra_has_lookalike",
          "oserror_retry", "c1_csi", "value_gt_999", "trailing_left", "nested_call", "two_nested_calls",
          "negative_clamped_at_1", "positive_movement", "no_callback_valueerror", "reply_delayed", "extra_between_query_and_reply",
          "multibyte_extra", "nested_with_move", "diff_before_render"]
TRIGGERS = {}

REPORT_RE = re.compile("(\x1b\\[|\x9b)\\d+;\\d+R")
FRAGS = ["\x1b", "\x1b[", "\x1b[12", "\x1b[12;", "\x1b[12;5", "7", "42", ";", "R", "\x9b", "\x9b3", "\x9b3;", "\x9b3;4",
         "\x1b[R", "\x1b[;R", "\x1b[1;R", "\x1b[;1R", "12;5R", "\x1bOR", "\x1b[1;2", "[", "\x1b\x1b["]
KEYS = ["a", "b", "q", " ", "\n", "\t", "\x7f", "\x03", "\x1b[A", "\x1b[B", "\x1b[C", "\x1b[D", "\x1bOP", "\x1b[15~",
        "\x1b[1;5C", "\x1b[3~", "\x1bb", "\x1b[200~", "é", "λ", "Ж", "│", "\U0001f600"]


# "reads that fail with OSError any number of times": any OSError - other errnos, subclasses, none at all
_ERROR_KINDS = (["EIO"], ["EIO", "EAGAIN", "EINTR"], ["EAGAIN"], ["EINTR", "EIO"], ["ENXIO", "EIO"], ["ETIMEDOUT"],
                ["bare", "EIO", "ENXIO"])


def _gen_extra(rng, enc, long_ok=True):
    k = rng.random()
    if k < 0.2:
        return ""
    if long_ok and k > 0.985:
        # a lot of type-ahead (a paste arriving while the position is asked for): cheap filler with the
        # interesting fragments at the end.  (Not more: the library's regex cost grows fast, DESIGN 12.6)
        tail = _gen_extra(rng, enc, False)
        body = "".join(rng.choice(("abc", "\x1b[A", "x", " ", "\n", "42", ";")) for _ in range(rng.randint(30, 160)))
        s = body + tail
        if not REPORT_RE.search(s):
            return s
    for _ in range(50):
        n = rng.choice((1, 1, 2, 3, 5, rng.randint(1, 12)))
        parts = []
        for _i in range(n):
            if rng.random() < 0.45:
                parts.append(rng.choice(FRAGS))
            else:
                parts.append(rng.choice(KEYS))
        if rng.random() < 0.35:
            parts.append(rng.choice(FRAGS))
        s = "".join(parts)
        if enc == "latin-1":
            s = "".join(ch for ch in s if ord(ch) < 256)
            if rng.random() < 0.3:
                s += chr(rng.randint(0x80, 0xFF))
        s = s[:40]
        if s and not REPORT_RE.search(s):
            return s
    return "x"


def _gen_query(rng, enc):
    row = rng.choice((1, 2, rng.randint(1, 30), rng.randint(1, 999), rng.randint(1000, 10 ** 6), 10 ** 6))
    col = rng.choice((1, rng.randint(1, 200), rng.randint(1, 10 ** 5)))
    extra = _gen_extra(rng, enc)
    tr = rng.random()
    if tr < 0.4:
        trailing = ""
    elif tr < 0.6:
        trailing = "\x1b[%d;%dR" % (rng.randint(1, 50), rng.randint(1, 50))    # a second report left unread
    else:
        trailing = "".join(rng.choice(KEYS + FRAGS) for _ in range(rng.randint(1, 5)))
        if enc == "latin-1":
            trailing = "".join(ch for ch in trailing if ord(ch) < 256)
    nerr = {}
    if rng.random() < 0.3:
        for _i in range(rng.randint(1, 4)):
            # "any number of times": mostly a few, now and then very many in a row
            r_ = rng.random()
            nerr[str(rng.randint(1, len(extra) + 8))] = (rng.choice((1, 1, 2, 3, 6)) if r_ < 0.9 else
                                                          17 if r_ < 0.96 else 100 if r_ < 0.99 else 1000)
    return {"op": "query", "row": row, "col": col, "extra": extra, "split": rng.randint(0, len(extra)),
            "trailing": trailing, "reply_delay": rng.choice((0, 0, 0.001, 0.5, 30.0)), "read_errors": nerr,
            "c1": rng.random() < 0.25}


def gen_plan(seed, tier, index=0, avoid=()):
    rng = random.Random(seed)
    enc = rng.choice(("utf-8", "utf-8", "latin-1"))
    h, w = rng.randint(1, 7), rng.randint(1, 10)
    if rng.random() < 0.5:
        cfg = {"h": h, "w": w, "encoding": enc, "callback": rng.random() < 0.75, "start_row": rng.randrange(h),
               "out_buffer": rng.choice(("none", "line", "block", "block")),
               "error_kinds": rng.choice(_ERROR_KINDS)}
        steps = [_gen_query(rng, enc) for _ in range(rng.choice((1, 1, 2, 3)))]
        if rng.random() < 0.004:
            # more than a kilobyte typed ahead of the report (a paste under way).  One query, executed once without
            # the fault variants: the library re-runs its regex over everything read so far after every character,
            # which costs seconds here (DESIGN 12.6)
            st = steps[0]
            tail = st["extra"]
            body = ""
            want = rng.choice((1030, 1100, 1300))
            while len(body) + len(tail) < want:
                body += rng.choice(("abc", "\x1b[A", "x", " ", "\n", "42", ";", "def ", "q"))
            if not REPORT_RE.search(body + tail):
                st["extra"] = body + tail
                st["split"] = rng.choice((0, len(st["extra"]), rng.randint(0, len(st["extra"]))))
                st["read_errors"] = {}
                return {"prop": PROP, "seed": seed, "mode": "A", "cfg": cfg, "steps": [st], "enumerate": False, "huge": True}
        return {"prop": PROP, "seed": seed, "mode": "A", "cfg": cfg, "steps": steps, "enumerate": True}
    # ---- part B
    h = rng.randint(2, 8) if rng.random() < 0.85 else 1
    # without a callback, input ahead of a report makes the query raise ValueError (allowed); the window
    # must stay usable: later queries still account for every movement
    cfg = {"h": h, "w": w, "encoding": enc, "callback": rng.random() < 0.8, "start_row": rng.randrange(h),
           "out_buffer": rng.choice(("none", "line", "block", "block")),
           "error_kinds": rng.choice(_ERROR_KINDS)}
    cfg["hide_cursor"] = rng.random() < 0.75
    cfg["keep_last_line"] = rng.random() < 0.3
    maxsteps = 25 if tier == "thorough" else 14
    nsteps = rng.choice((2, 3, 4, 6, rng.randint(2, maxsteps)))
    steps = []
    for i in range(nsteps):
        k = rng.random()
        if k < 0.3 or (i == 0 and k < 0.8):
            # at least one row: cursor_pos must designate an array cell (with top_usable_row pushed to
            # the screen height by earlier movements an empty array has no on-screen cell for the cursor)
            n = rng.randint(1, h + 1) if rng.random() < 0.8 else rng.randint(h, h + 4)
            rows = [gen.gen_row(rng, rng.randint(0, w), 0.7) for _ in range(n)]
            cr = rng.randrange(n)
            steps.append({"op": "render", "rows": rows, "cursor": [cr, rng.randrange(w)]})
        elif k < 0.6:
            d = rng.choice((1, -1, 2, -2, rng.randint(-h - 2, h + 2)))
            steps.append({"op": "move", "d": d})
        else:
            st = {"op": "diff", "noise": "", "read_errors": {}, "nested": [], "c1": rng.random() < 0.2}
            if rng.random() < 0.25:
                st["noise"] = _gen_extra(rng, enc)[:8]
            if rng.random() < 0.2:
                for _i in range(rng.randint(1, 3)):
                    st["read_errors"][str(rng.randint(1, 8))] = rng.choice((1, 2, 5))
            if rng.random() < 0.3:
                st["nested"].append({"at_read": rng.randint(1, 6), "move": rng.choice((0, 0, 1, -1, rng.randint(-h, h)))})
            steps.append(st)
    if not any(s["op"] == "diff" for s in steps):
        steps.append({"op": "diff", "noise": "", "read_errors": {}, "nested": []})
    if rng.random() < 0.04 and h >= 2:
        # the content moved up before the first render and comes back down while queries are under way: every
        # overtaken query moves top_usable_row further down, past the bottom of the screen; then a render and a query
        # (the history of finding 14)
        cfg["start_row"] = h - 1
        steps = [{"op": "move", "d": -rng.randint(1, h)}]
        for _ in range(rng.randint(2, 4)):
            steps.append({"op": "diff", "noise": "", "read_errors": {}, "c1": False,
                          "nested": [{"at_read": rng.randint(1, 5), "move": 1}]})
        n = rng.randint(1, 2)
        steps.append({"op": "render", "rows": [gen.gen_row(rng, rng.randint(0, w), 0.7) for _ in range(n)],
                      "cursor": [rng.randrange(n), rng.randrange(w)]})
        steps.append({"op": "diff", "noise": "", "read_errors": {}, "nested": [], "c1": False})
    return {"prop": PROP, "seed": seed, "mode": "B", "cfg": cfg, "steps": steps, "enumerate": True}


def valid(p):
    c = p["cfg"]
    if c["h"] < 1 or c["w"] < 1 or not (0 <= c["start_row"] < c["h"]):
        return False
    for st in p["steps"]:
        if st["op"] == "query":
            if REPORT_RE.search(st["extra"]) or not (0 <= st["split"] <= len(st["extra"])):
                return False
            if st["row"] < 1 or st["col"] < 1:
                return False
            try:
                st["extra"].encode(c["encoding"])
                st["trailing"].encode(c["encoding"])
            except UnicodeError:
                return False
        elif st["op"] == "render":
            rows = st["rows"]
            if not rows or any(gen.row_len(r) > c["w"] for r in rows):
                return False
            cr, cc = st["cursor"]
            if not (0 <= cc < c["w"]) or not (0 <= cr < len(rows)):
                return False
        elif st["op"] == "diff":
            if REPORT_RE.search(st["noise"]):
                return False
            try:
                st["noise"].encode(c["encoding"])
            except UnicodeError:
                return False
    return True


def freeze(p):
    p["enumerate"] = False
    return p


def _simp(p):
    c = p["cfg"]
    if c["start_row"]:
        q = planmod.clone(p)
        q["cfg"]["start_row"] -= 1
        yield q
    if c["encoding"] != "utf-8":
        q = planmod.clone(p)
        q["cfg"]["encoding"] = "utf-8"
        yield q
    for k in ("h", "w"):
        if c[k] > 1:
            q = planmod.clone(p)
            q["cfg"][k] -= 1
            q["cfg"]["start_row"] = min(q["cfg"]["start_row"], q["cfg"]["h"] - 1)
            yield q
    for i, st in enumerate(p["steps"]):
        if st["op"] == "query":
            for key in ("extra", "trailing"):
                s = st[key]
                for j in range(len(s)):
                    q = planmod.clone(p)
                    q["steps"][i][key] = s[:j] + s[j + 1:]
                    q["steps"][i]["split"] = min(q["steps"][i]["split"], len(q["steps"][i]["extra"]))
                    yield q
            if st["read_errors"]:
                for k in list(st["read_errors"]):
                    q = planmod.clone(p)
                    del q["steps"][i]["read_errors"][k]
                    yield q
            for key, simple in (("reply_delay", 0), ("c1", False), ("split", 0), ("row", 1), ("col", 1)):
                if st[key] != simple:
                    q = planmod.clone(p)
                    q["steps"][i][key] = simple
                    yield q
        elif st["op"] == "diff":
            if st["noise"]:
                q = planmod.clone(p)
                q["steps"][i]["noise"] = ""
                yield q
            for k in list(st["read_errors"]):
                q = planmod.clone(p)
                del q["steps"][i]["read_errors"][k]
                yield q
            for j in range(len(st["nested"])):
                q = planmod.clone(p)
                del q["steps"][i]["nested"][j]
                yield q
                if st["nested"][j]["move"]:
                    q = planmod.clone(p)
                    q["steps"][i]["nested"][j]["move"] = 0
                    yield q
        elif st["op"] == "move":
            d = st["d"]
            if abs(d) > 1:
                q = planmod.clone(p)
                q["steps"][i]["d"] = d - 1 if d > 0 else d + 1
                yield q
        elif st["op"] == "render":
            for j in range(len(st["rows"]) - 1, -1, -1):
                q = planmod.clone(p)
                del q["steps"][i]["rows"][j]
                q["steps"][i]["cursor"][0] = min(st["cursor"][0], max(0, len(st["rows"]) - 2))
                yield q
            for j, row in enumerate(st["rows"]):
                if row["t"] != "str" or row["s"]:
                    q = planmod.clone(p)
                    q["steps"][i]["rows"][j] = {"t": "str", "s": ""}
                    yield q


SIMPLIFIERS = (_simp,)


# ------------------------------------------------------------------------------------------
def _variants(p, reads_per_step, lines_per_step=None):
    lines_per_step = lines_per_step or {}
    """enumerate the fault variants of a scenario (concrete plans, enumerate=False)"""
    out = []
    if p["mode"] == "A":
        for i, st in enumerate(p["steps"]):
            m = reads_per_step.get(i, 0)
            for j in range(max(1, m - 30), m + 1):      # (with a lot of type-ahead: the reads around the report)
                q = planmod.clone(p)
                q["steps"][i]["read_errors"] = {str(j): 1 if j % 2 else 3}
                out.append(q)
            q = planmod.clone(p)
            q["steps"][i]["read_errors"] = {str(j): 1 + (j % 2) for j in range(1, m + 1)}
            out.append(q)
            if m:
                q = planmod.clone(p)
                q["steps"][i]["read_errors"] = {str(1 + (len(out) % m)): 25}
                out.append(q)
            n = len(st["extra"])
            for split in sorted(set((0, n, n // 2))):
                for delay in (0, 2.5):
                    if split == st["split"] and delay == st["reply_delay"]:
                        continue
                    q = planmod.clone(p)
                    q["steps"][i]["split"] = split
                    q["steps"][i]["reply_delay"] = delay
                    q["steps"][i]["read_errors"] = {k: min(v, 6) for k, v in st["read_errors"].items()}
                    out.append(q)
    else:
        diffs = [i for i, st in enumerate(p["steps"]) if st["op"] == "diff"][:4]
        for i in diffs:
            m = reads_per_step.get(i, 0)
            for j in range(1, m + 1):
                for mv in (0, 1, -2):
                    q = planmod.clone(p)
                    q["steps"][i]["nested"] = [{"at_read": j, "move": mv}]
                    out.append(q)
            for j1, j2 in ((1, 2), (1, m), (2, m + 3), (m, m + 1)):
                if 1 <= j1 < j2:
                    q = planmod.clone(p)
                    q["steps"][i]["nested"] = [{"at_read": j1, "move": 1}, {"at_read": j2, "move": -1}]
                    out.append(q)
            for j in range(1, m + 1, 2):
                q = planmod.clone(p)
                q["steps"][i]["read_errors"] = {str(j): 2}
                out.append(q)
            # a SIGWINCH (whose handler calls get_cursor_vertical_diff again) between two lines of window.py
            # while the call is on the stack - not only inside the reads of the query
            nl = lines_per_step.get(i, 0) if i in diffs[:2] else 0
            step_ = max(3, nl // 10)
            for k in range(1 + (len(out) % 3), nl + 1, step_):
                q = planmod.clone(p)
                q["steps"][i]["nested"] = [{"at_line": k, "move": (1, 0, -1)[k % 3]}]
                out.append(q)
    for q in out:
        q["enumerate"] = False
    return out


def run_plan(p, keep_log=False):
    res = _run_one(p, keep_log)
    res["executions"] = 1
    if not p.get("enumerate") or res["error"] or res["violation"]:
        if res["violation"] and p.get("enumerate"):
            res["violation"]["concrete_plan"] = freeze(planmod.clone(p))
        return res
    import hashlib
    hh = hashlib.sha1(res["digest"].encode())
    for q in _variants(p, res["reads_per_step"], res.get("lines_per_step")):
        r2 = _run_one(q, False)
        res["executions"] += 1
        hh.update(r2["digest"].encode())
        for k, v in r2["probes"].items():
            res["probes"][k] = res["probes"].get(k, 0) + v
        for k, v in r2["faults"].items():
            res["faults"][k] = res["faults"].get(k, 0) + v
        res["states"] |= r2["states"]
        res["sim_s"] += r2["sim_s"]
        res["nsteps"] += r2["nsteps"]
        res["nontrivial"] = res["nontrivial"] or r2["nontrivial"]
        if r2["error"]:
            res["error"] = r2["error"]
            res["error_plan"] = q
            break
        if r2["violation"]:
            res["violation"] = r2["violation"]
            res["violation"]["concrete_plan"] = q
            break
    res["digest"] = hh.hexdigest()
    return res


def _run_one(p, keep_log):
    cfg = p["cfg"]
    s = setup.make({"h": cfg["h"], "w": cfg["w"], "encoding": cfg["encoding"], "yield_cap": 500000,
                    "out_buffer": cfg.get("out_buffer", "none")}, None, keep_log)
    world, term = s.world, s.term
    s.inp.error_kinds = tuple(cfg.get("error_kinds") or ("EIO",))
    res = {"violation": None, "error": None, "probes": world.probes, "faults": world.faults,
           "states": set(), "nsteps": 0, "reads_per_step": {}, "lines_per_step": {}}
    try:
        if p["mode"] == "A":
            _exec_a(p, s, res)
        else:
            _exec_b(p, s, res)
    except HarnessError as e:
        res["error"] = "harness: %s" % e
    except StepCap:
        res["error"] = "step cap exceeded"
    finally:
        setup.finish(s)
    if term.unknown and not res["error"]:
        res["error"] = "UNMODELLED terminal sequence(s): %r" % term.unknown[:3]
    res["digest"] = world.log.digest()
    res["sim_s"] = world.now - world.t0
    res["nontrivial"] = bool(world.faults) or any(world.probes.get(k) for k in (
        "extra_nonempty", "nested_call", "negative_clamped_at_1", "trailing_left", "c1_csi"))
    if keep_log:
        res["log"] = world.log.entries
    return res


def _violate(res, name, step, detail):
    if res["violation"] is None:
        res["violation"] = {"invariant": name, "step": step, "detail": detail}


def _enter(win, res):
    try:
        win.__enter__()
        return True
    except HarnessError:
        raise
    except Quiescent:
        _violate(res, "query_hung", -1, {"note": "__enter__'s cursor query blocked for ever: the query never reached the "
                                                 "terminal (not flushed?) or the report was not recognised"})
        return False
    except Exception as e:
        if environment_artefact(e):
            raise HarnessError("stub-environment artefact: %s: %s" % (type(e).__name__, e))
        _violate(res, "enter_raised", -1, {"exception": "%s: %s" % (type(e).__name__, e)})
        return False


def _exec_a(p, s, res):
    from curtsies.window import CursorAwareWindow
    cfg = p["cfg"]
    world, term, kernel = s.world, s.term, s.kernel
    enc = cfg["encoding"]
    if cfg["start_row"]:
        term.feed("\x1b[%d;1H" % (cfg["start_row"] + 1))
    got_extra = []
    cb = (lambda b: got_extra.append(b)) if cfg["callback"] else None
    win = CursorAwareWindow(out_stream=s.out, in_stream=s.inp, extra_bytes_callback=cb)
    if not _enter(win, res):
        return
    try:
        for si, st in enumerate(p["steps"]):
            res["nsteps"] += 1
            extra_b = st["extra"].encode(enc)
            trailing_b = st["trailing"].encode(enc)
            split = len(st["extra"][:st["split"]].encode(enc))
            del got_extra[:]
            term.dsr_position = (st["row"], st["col"])
            term.c1_reply = st["c1"]
            s.inp.read_errors = {int(k): v for k, v in st["read_errors"].items()}
            s.inp.nreads = 0
            s.inp._err_left = None
            # typed ahead, before the query is written
            if split:
                kernel.arrive(s.fd, extra_b[:split])
                world.log.add("typed_ahead", extra_b[:split])
            delay = st["reply_delay"]

            def reply(text, extra_b=extra_b, split=split, trailing_b=trailing_b, delay=delay):
                rep = text.encode(enc)
                data = extra_b[split:] + rep + trailing_b
                if split < len(extra_b):
                    world.probe("extra_between_query_and_reply")
                if delay:
                    world.probe("reply_delayed")
                    world.after(delay, "arrive", data.hex())
                else:
                    world.log.add("reply", data)
                    kernel.arrive(s.fd, data)
            term.reply = reply
            _probes_a(world, st)
            exc = None
            ret = None
            try:
                ret = win.get_cursor_position()
            except HarnessError:
                raise
            except Quiescent:
                _violate(res, "read_past_report", si, {"note": "the query blocked for input although the complete report had arrived",
                                                        "extra": st["extra"], "row": st["row"], "col": st["col"]})
                return
            except Exception as e:
                if environment_artefact(e):
                    raise HarnessError("stub-environment artefact: %s: %s" % (type(e).__name__, e))
                exc = e
            res["reads_per_step"][si] = s.inp.nreads
            rest = bytes(s.tty.inq)
            world.log.add("oracle_a", si, ret, [bytes(b) for b in got_extra], rest, type(exc).__name__ if exc else None)
            res["states"].add("A|%s|%d|%d|%d|%d" % (_extra_class(st["extra"]), st["c1"], len(str(st["row"])),
                                                  cfg["callback"], bool(st["trailing"])))
            expect_error = bool(extra_b) and not cfg["callback"]
            if expect_error and delay and isinstance(exc, ValueError):
                # an implementation may give up before the (delayed) report has arrived: let it arrive, then
                # look at what is unread
                world.block_until(lambda: False, world.now + delay + 1.0, "sleep")
                rest = bytes(s.tty.inq)
            if (rest != trailing_b) if not expect_error else (not rest.endswith(trailing_b)):
                _violate(res, "consumed_past_report", si, {"unread": repr(rest), "expected_unread": repr(trailing_b),
                                                            "extra": st["extra"]})
            if extra_b and not cfg["callback"]:
                world.probe("no_callback_valueerror")
                if not isinstance(exc, ValueError):
                    _violate(res, "no_valueerror_for_extra", si, {"returned": repr(ret), "exception": repr(exc),
                                                                   "extra": st["extra"]})
            else:
                if exc is not None:
                    _violate(res, "query_raised", si, {"exception": "%s: %s" % (type(exc).__name__, exc),
                                                        "extra": st["extra"]})
                elif ret != (st["row"] - 1, st["col"] - 1):
                    _violate(res, "position_wrong", si, {"returned": repr(ret), "reported": [st["row"], st["col"]],
                                                          "extra": st["extra"]})
                if cfg["callback"]:
                    if not all(isinstance(b, bytes) for b in got_extra) or b"".join(got_extra) != extra_b:
                        _violate(res, "extra_bytes_wrong", si, {"callback_got": repr(got_extra), "expected": repr(extra_b)})
            if st["trailing"]:
                world.probe("trailing_left")
            # drop what is left so that the next query starts clean
            del s.tty.inq[:]
            if res["violation"]:
                return
    finally:
        term.dsr_position = None
        term.reply = lambda text: kernel.arrive(s.fd, text.encode(enc))
        s.inp.read_errors = {}
        try:
            win.__exit__(None, None, None)
        except HarnessError:
            raise
        except Exception as e:
            if environment_artefact(e):
                raise HarnessError("stub-environment artefact: %s: %s" % (type(e).__name__, e))
            _violate(res, "exit_raised", len(p["steps"]), {"exception": "%s: %s" % (type(e).__name__, e)})


def _extra_class(extra):
    if not extra:
        return "empty"
    c = []
    if extra.endswith("\x1b"):
        c.append("esc")
    elif extra[-1].isdigit():
        c.append("dig")
    elif extra.endswith(";"):
        c.append("semi")
    elif extra.endswith("["):
        c.append("csi")
    else:
        c.append("other")
    if any(f in extra for f in ("\x1b[12;5", "\x9b3;4", "12;5R", "\x1b[1;R")):
        c.append("look")
    return "+".join(c)


def _probes_a(world, st):
    e = st["extra"]
    if e:
        world.probe("extra_nonempty")
        if e.endswith("\x1b"):
            world.probe("extra_ends_esc")
        if e[-1].isdigit():
            world.probe("extra_ends_digits")
        if e.endswith(";"):
            world.probe("extra_ends_semicolon")
        if any(f in e for f in ("\x1b[12;5", "\x9b3;4", "12;5R", "\x1b[1;R", "\x1b[;1R")):
            world.probe("extra_has_lookalike")
        if any(ord(ch) > 127 for ch in e):
            world.probe("multibyte_extra")
    if st["c1"]:
        world.probe("c1_csi")
    if st["row"] > 999 or st["col"] > 999:
        world.probe("value_gt_999")
    if st["read_errors"]:
        world.probe("oserror_retry")


def _exec_b(p, s, res):
    from curtsies.window import CursorAwareWindow
    cfg = p["cfg"]
    world, term, kernel = s.world, s.term, s.kernel
    enc = cfg["encoding"]
    h, w = cfg["h"], cfg["w"]
    if cfg["start_row"]:
        term.feed("\x1b[%d;1H" % (cfg["start_row"] + 1))
    got_extra = []
    win = CursorAwareWindow(out_stream=s.out, in_stream=s.inp, hide_cursor=cfg.get("hide_cursor", True),
                            keep_last_line=cfg.get("keep_last_line", False),
                            extra_bytes_callback=(lambda b: got_extra.append(b)) if cfg["callback"] else None)
    if not _enter(win, res):
        return
    base = None           # row where the last render / previous completed query left/saw the cursor
    base_alt = None       # after a failed query: the row that query saw (an implementation may have recorded it)
    moved_since_entry = False
    nested_returns = []
    nonlocal_moved = [False]

    def winch(signum, frame):
        spec = winch.spec
        if spec and spec.get("move"):
            nonlocal_moved[0] = True
            _move(term, spec["move"])
            world.log.add("move_in_handler", spec["move"], term.r)
            world.probe("nested_with_move")
        r = win.get_cursor_vertical_diff()
        nested_returns.append(r)
        world.log.add("nested_diff", r)
    winch.spec = None
    winch.sim_name = "winch_handler"
    import curtsies.window as _cw
    line_tracer = world.make_tracer(_cw.__file__)
    kernel.sig.handlers[_signal.SIGWINCH] = winch
    try:
        for si, st in enumerate(p["steps"]):
            res["nsteps"] += 1
            if st["op"] == "render":
                arr = gen.build_array(st["rows"], False, w)
                try:
                    win.render_to_terminal(arr, tuple(st["cursor"]))
                except HarnessError:
                    raise
                except Exception as e:
                    if environment_artefact(e):
                        raise HarnessError("stub-environment artefact: %s: %s" % (type(e).__name__, e))
                    _violate(res, "render_raised", si, {"exception": "%s: %s" % (type(e).__name__, e)})
                    return
                base = term.r
                base_alt = None
                world.log.add("rendered", si, term.r, win.top_usable_row)
            elif st["op"] == "move":
                moved_since_entry = True
                _move(term, st["d"])
                world.log.add("move", st["d"], term.r)
            else:
                del got_extra[:]
                del nested_returns[:]
                term.c1_reply = bool(st.get("c1"))       # the terminal answers with the 8-bit CSI
                if st.get("c1"):
                    world.probe("c1_csi")
                noise_b = st["noise"].encode(enc)
                if noise_b:
                    kernel.arrive(s.fd, noise_b)
                    world.probe("extra_nonempty")
                s.inp.read_errors = {int(k): v for k, v in st["read_errors"].items()}
                if st["read_errors"]:
                    world.probe("oserror_retry")
                s.inp.nreads = 0
                s.inp._err_left = None
                nested = {int(n["at_read"]): n for n in st["nested"] if "at_read" in n}
                line_nested = {int(n["at_line"]): n for n in st["nested"] if "at_line" in n}
                line_no = [0]
                prev_line_hook = world.on_main_line

                def on_line(line_nested=line_nested, line_no=line_no):
                    line_no[0] += 1
                    spec = line_nested.get(line_no[0])
                    if spec is not None and not spec.get("_fired"):
                        spec["_fired"] = True
                        winch.spec = spec
                        kernel.sig.post(_signal.SIGWINCH)
                    if prev_line_hook is not None:
                        prev_line_hook()
                world.on_main_line = on_line
                call0 = s.inp.ncalls
                succ0 = [0]

                def on_read(ncall, nested=nested):
                    # fire at the j-th successful-read attempt of this step (ordinal of characters)
                    j = s.inp.nreads + 1
                    spec = nested.get(j)
                    if spec is not None and not spec.get("_fired") and s.inp._err_left in (None, 0):
                        spec["_fired"] = True
                        winch.spec = spec
                        kernel.sig.post(_signal.SIGWINCH)
                for n in nested.values():
                    n.pop("_fired", None)
                s.inp.on_read = on_read
                top0 = win.top_usable_row
                if base is None:
                    world.probe("diff_before_render")
                try:
                    sys.settrace(line_tracer)
                    try:
                        ret = win.get_cursor_vertical_diff()
                    finally:
                        sys.settrace(None)
                        world.on_main_line = prev_line_hook
                        res["lines_per_step"][si] = line_no[0]
                        for n in line_nested.values():
                            n.pop("_fired", None)
                except HarnessError:
                    raise
                except Quiescent:
                    _violate(res, "query_hung", si, {"note": "get_cursor_vertical_diff blocked for input with every report delivered"})
                    return
                except Exception as e:
                    if environment_artefact(e):
                        raise HarnessError("stub-environment artefact: %s: %s" % (type(e).__name__, e))
                    if isinstance(e, ValueError) and noise_b and not cfg["callback"]:
                        # input ahead of the report and no callback: ValueError is the documented outcome.  The
                        # bytes up to and including the report were consumed; the base row is unchanged because
                        # the query did not complete.
                        world.probe("no_callback_valueerror")
                        world.log.add("diff_valueerror", si)
                        # What the failed call did to top_usable_row decides what is still to be accounted for:
                        # nothing (the next call measures from the old base row), or the whole movement it saw (the
                        # next call measures from the row it saw).  Anything in between - a clamp was hit and the
                        # part it would have returned went down with the exception, or nested calls were involved -
                        # cannot be judged: either base is accepted then.
                        seen = s.term.last_dsr[0] if s.term.last_dsr else None
                        dfail = win.top_usable_row - top0
                        world.log.add("failed_query_changed_top_by", dfail, seen, base)
                        if base is None or seen is None or nested_returns:
                            base_alt = seen
                        elif dfail == 0:
                            base_alt = None
                        elif dfail == seen - base:
                            base, base_alt = seen, None
                            world.probe("failed_query_accounted_fully")
                        else:
                            base_alt = seen
                        res["reads_per_step"][si] = s.inp.nreads
                        del s.tty.inq[:]
                        continue
                    _violate(res, "diff_raised", si, {"exception": "%s: %s" % (type(e).__name__, e)})
                    return
                finally:
                    s.inp.on_read = None
                    s.inp.read_errors = {}
                    for n in nested.values():
                        n.pop("_fired", None)
                res["reads_per_step"][si] = s.inp.nreads
                reported = term.last_dsr[0]
                top1 = win.top_usable_row
                world.log.add("oracle_b", si, ret, top0, top1, reported, base, list(nested_returns))
                if nested_returns:
                    world.probe("nested_call")
                    world.fault("nested_sigwinch", len(nested_returns))
                    if len(nested_returns) > 1:
                        world.probe("two_nested_calls")
                nested_sum = sum(r for r in nested_returns if isinstance(r, int))
                if cfg["callback"] and b"".join(got_extra) != noise_b:
                    _violate(res, "extra_bytes_wrong", si, {"callback_got": repr(got_extra), "expected": repr(noise_b)})
                if not cfg["callback"] and noise_b:
                    _violate(res, "no_valueerror_for_extra", si, {"returned": repr(ret), "extra": st["noise"]})
                if bytes(s.tty.inq):
                    _violate(res, "unread_input_left", si, {"unread": repr(bytes(s.tty.inq))})
                if not isinstance(ret, int):
                    _violate(res, "diff_not_int", si, {"returned": repr(ret)})
                elif base is None:
                    # no render and no earlier query: there is no base row to measure a movement from --
                    # except when the cursor still is where it was on entry: nothing moved, nothing to account
                    if not moved_since_entry and not nonlocal_moved[0] and (top1 - top0) + ret != 0:
                        _violate(res, "movement_invented_before_first_render", si,
                                 {"top_usable_row_before": top0, "after": top1, "returned": ret, "reported_row": reported})
                elif base is not None:
                    moved = reported - base
                    ok = (top1 - top0) + ret + nested_sum == moved
                    if not ok and base_alt is not None:
                        ok = (top1 - top0) + ret + nested_sum == reported - base_alt
                    if not ok:
                        _violate(res, "movement_not_conserved", si,
                                 {"top_usable_row_before": top0, "after": top1, "returned": ret,
                                  "observed_movement": moved, "reported_row": reported, "base_row": base,
                                  "nested": st["nested"]})
                    if moved > 0:
                        world.probe("positive_movement")
                    if moved < 0 and ret < 0:
                        world.probe("negative_clamped_at_1")
                    res["states"].add("B|%s|%s|%d|%d" % ("0" if top0 == 0 else "1" if top0 == 1 else "n",
                                                       "+" if moved > 0 else "-" if moved < 0 else "0",
                                                       ret != 0, len(nested_returns)))
                base = reported
                base_alt = None
                if res["violation"]:
                    return
    finally:
        kernel.sig.handlers.pop(_signal.SIGWINCH, None)
        s.inp.on_read = None
        try:
            win.__exit__(None, None, None)
        except HarnessError:
            raise
        except Exception as e:
            if environment_artefact(e):
                raise HarnessError("stub-environment artefact: %s: %s" % (type(e).__name__, e))
            _violate(res, "exit_raised", len(p["steps"]), {"exception": "%s: %s" % (type(e).__name__, e)})


def _move(term, d):
    term.r = max(0, min(term.h - 1, term.r + d))
    term.pending = False
