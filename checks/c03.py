"""C03 -- key decoding, the part a simulator can decide: through the real Input on the
simulated tty, where reads end (buffer exhausted -> full=True), what follows in the
buffer, and whether a key arrives whole or split is decided by arrival schedule and
READ_SIZE.  Every table entry is visited systematically.          DESIGN.md 8b.
"""

import random

from sim import setup, plan as planmod
from sim.world import environment_artefact, HarnessError, StepCap, Quiescent

PROP = "C03"
LEVEL = "exploration"
COUNTS = {"quick": 60000, "thorough": 3000000}
MAX_SECONDS = {"quick": 100, "thorough": 1500}
DET_EVERY = {"quick": 40, "thorough": 400}
SHRINK_BUDGET = 500
LIST_KEYS = ("arrivals",)

RULE = ("one evaluation = one seeded stream of units (table sequences of CURTSIES_NAMES u CURSES_NAMES visited in a seeded "
        "permutation so that a sweep places every entry in every situation, plus validly encoded characters of every encoded "
        "length) delivered as arrivals to a real Input on the simulated tty and fetched request by request, replayed under all "
        "three naming modes; situations per unit: (a) last in its read (buffer exhausted), (b) followed by more buffered bytes, "
        "(c) cut by the read size or by a split arrival (fault). Oracle from the statement: conservation in every situation; "
        "in (a)/(b) no exception, one event per unit, table name / the character itself; identical cut points in all modes. "
        "distinct = distinct SHA-1 of the event logs of the three replays; non-trivial = a multi-byte unit, a prefix key at a "
        "read end, a cut or a split occurred")
STATE_DEF = "(encoding, situation a/b/c, unit class: table-esc / table-single / prefix-key / meta-byte / char-1..4 bytes, naming mode)"
COMPONENTS = {
    "real": ["curtsies.input.Input (send/_send/find_key/_nonblocking_read/unget_bytes)", "curtsies.events.get_key, _key_name, "
             "could_be_unfinished_char, tables CURTSIES_NAMES / CURSES_NAMES / KEYMAP_PREFIXES", "curtsies.termhelpers.Nonblocking"],
    "stub": ["kernel tty, select, fcntl, termios: sim.kernel", "locale.getpreferredencoding -> per-run constant", "READ_SIZE knob",
             "virtual clock"],
}
ASSUMPTIONS = [
    "the decoder's decision tree is NOT enumerated exhaustively (that is enumeration, not simulation): what is decided is what the "
    "real Input reaches under seeded arrival schedules and read sizes",
    "the key tables themselves are the specification of names (their internal consistency is C20's subject)",
    "units that are proper prefixes of longer table entries and, under utf-8, single 8-bit Meta bytes are judged only when they "
    "end a read (the property's own caveat); elsewhere only conservation and absence of failure are demanded",
    "in a quarter of the runs a paste threshold is set and keys come back inside PasteEvents (decoding in the paste loop); "
    "the situation of a unit is then still read off the read boundaries",
]
PROBES = ["situation_a", "situation_b", "situation_c_read_size", "situation_c_split", "prefix_key_at_read_end", "meta_byte_at_read_end",
          "utf8_len1", "utf8_len2", "utf8_len3", "utf8_len4", "table_esc_unit", "table_single_unit", "enc_ascii", "enc_latin1",
          "enc_utf8", "prefix_key_followed_in_buffer", "partial_key_completed_later", "char_single_byte", "paste_event"]

def extra_coverage(agg):
    t = _tables()
    out = {}
    for enc in ("utf-8", "latin-1", "ascii"):
        for sit in ("a", "b", "c"):
            n = sum(1 for x in agg["states"] if x.startswith("E|%s|%s|" % (enc, sit)))
            out["table_entries_seen_%s_situation_%s" % (enc, sit)] = n
    out["table_entries_total"] = len(t["all"])
    out["distinct_adjacent_table_pairs_seen_in_situation_b"] = sum(1 for x in agg["states"] if x.startswith("P|"))
    out["adjacent_table_pairs_possible"] = len(t["all"]) ** 2
    return out


TRIGGERS = {
    # known finding: a key that is also a prefix of longer sequences, followed IN THE SAME READ by a byte >= 0x80
    "prefix_then_highbyte": lambda p: _has_prefix_then_highbyte(p),
}

_T = {}


def _tables():
    if _T:
        return _T
    from curtsies import events
    cu, cs = dict(events.CURTSIES_NAMES), dict(events.CURSES_NAMES)
    allk = sorted(set(cu) | set(cs))
    prefixes = set()
    for k in allk:
        for i in range(1, len(k)):
            prefixes.add(k[:i])
    rcu, rcs = {}, {}
    for k_, v_ in cu.items():
        rcu.setdefault(v_, []).append(k_)
    for k_, v_ in cs.items():
        rcs.setdefault(v_, []).append(k_)
    _T.update({"cu": cu, "cs": cs, "all": allk, "prefixes": prefixes, "rev_curtsies": rcu, "rev_curses": rcs,
               "prefix_keys": [k for k in allk if k in prefixes],
               "plain_keys": [k for k in allk if k not in prefixes]})
    return _T


def _has_prefix_then_highbyte(p):
    t = _tables()
    for a in p["arrivals"]:
        us = [bytes.fromhex(u) for u in a["units"]]
        for i, u in enumerate(us[:-1]):
            if u in t["prefixes"] and us[i + 1][:1] >= b"\x80":
                return True
    return False


_EDGE_CODEPOINTS = (0x7F, 0x80, 0xBF, 0xC0, 0xFF, 0x100, 0x7FF, 0x800, 0xFFF, 0x1000, 0xCFFF, 0xD000, 0xD7FF, 0xE000,
                    0xFFFD, 0xFFFE, 0xFFFF, 0x10000, 0x3FFFF, 0x40000, 0xFFFFF, 0x100000, 0x10FFFE, 0x10FFFF)


def _gen_follower(rng, enc, t, ascii_only):
    """what comes right after a prefix key in the same read: a character, a control character, a complete table
    sequence or another prefix key (ascii_only: nothing that starts with a byte >= 0x80 - the known finding)"""
    k = rng.random()
    if k < 0.5:
        if not ascii_only:
            return _gen_char(rng, enc, t)
        b = bytes([rng.randint(0x20, 0x7E)])
        return b"a" if b in t["prefixes"] else b
    if k < 0.65:
        return bytes([rng.choice((0, 1, 4, 9, 10, 13, 26, 27, 28, 31, 127))])
    pool = t["all"] if k < 0.9 else t["prefix_keys"]
    for _ in range(20):
        u = rng.choice(pool)
        if u[0] < 0x80 and not (enc == "ascii" and any(c >= 0x80 for c in u)):
            return u
    return b"a"


def _gen_char(rng, enc, t):
    for _ in range(100):
        if enc == "ascii":
            b = bytes([rng.randint(0x20, 0x7E)])
        elif enc == "latin-1":
            b = bytes([rng.choice((rng.randint(0x20, 0x7E), rng.randint(0xA0, 0xFF)))])
        else:
            n = rng.choice((1, 2, 2, 3, 3, 4))
            cp = {1: rng.randint(0x20, 0x7E), 2: rng.randint(0x80, 0x7FF),
                  3: rng.choice((rng.randint(0x800, 0xD7FF), rng.randint(0xE000, 0xFFFF))),
                  4: rng.randint(0x10000, 0x10FFFF)}[n]
            if rng.random() < 0.12:
                cp = rng.choice(_EDGE_CODEPOINTS)       # ends of every encoded length and of every lead byte's range
            b = chr(cp).encode("utf-8")
        if b not in t["prefixes"]:
            return b
    return b"a"


def gen_plan(seed, tier, index=0, avoid=()):
    rng = random.Random(seed)
    t = _tables()
    enc = ("utf-8", "utf-8", "latin-1", "ascii")[index % 4]
    slice_ = (index // 4) % 6          # 0..3 ordinary, 4 split arrivals (fault c), 5 prefix key followed in the buffer
    split = slice_ == 4
    follow = slice_ == 5 and "prefix_then_highbyte" not in avoid
    follow_ascii_only = slice_ == 5 and "prefix_then_highbyte" in avoid
    spell = {"utf-8": ("utf-8", "UTF-8", "utf8"), "latin-1": ("latin-1", "ISO-8859-1", "iso8859-1"),
             "ascii": ("ascii", "ANSI_X3.4-1968", "US-ASCII")}[enc]
    cfg = {"encoding": enc, "read_size": rng.choice((7, 8, 16, 64, 1024, 1024)),
           "locale_name": rng.choice(spell),             # what locale.getpreferredencoding() answers with
           "keynames_enum": rng.random() < 0.4,          # keynames given as events.Keynames member / as string
           "paste_threshold": rng.choice((None, None, None, 1, 8))}   # decoding inside the paste loop, too
    # systematic visiting: a seeded permutation of the table, this run takes a window of it
    perm = list(t["all"])
    random.Random(1234567).shuffle(perm)
    nunits = rng.choice((2, 4, 8, 16, 30))
    start = (index * 7) % len(perm)
    table_units = []
    for j in range(nunits):
        table_units.append(perm[(start + j) % len(perm)])
        # "every table sequence followed by every other table sequence": the systematic unit is followed,
        # in the same buffer, by a table entry drawn at random (the pairs seen are counted in the evidence)
        if rng.random() < 0.5:
            table_units.append(rng.choice(perm))
    arrivals = []
    cur = []

    def flush():
        if cur:
            arrivals.append({"units": [u.hex() for u in cur]})
            del cur[:]

    for u in table_units:
        if rng.random() < 0.4:
            cur.append(_gen_char(rng, enc, t))
        is_prefix = u in t["prefixes"]
        is_meta = enc == "utf-8" and len(u) == 1 and u[0] >= 0x80
        if enc == "ascii" and any(c >= 0x80 for c in u) and len(u) > 1:
            continue
        cur.append(u)
        if is_prefix or is_meta:
            if (follow or follow_ascii_only) and is_prefix and rng.random() < 0.6:
                cur.append(_gen_follower(rng, enc, t, follow_ascii_only))
                arrivals.append({"units": [x.hex() for x in cur], "followed": True})
                del cur[:]
            else:
                flush()                      # such a unit ends its arrival: judged only at a read end
        elif rng.random() < 0.3:
            flush()
    flush()
    if split:
        for a in arrivals:
            total = sum(len(u) // 2 for u in a["units"])
            if total >= 2 and rng.random() < 0.7:
                a["split_at"] = rng.randint(1, total - 1)
                a["between"] = rng.choice((0, 1, 2))
    return {"prop": PROP, "seed": seed, "cfg": cfg, "arrivals": arrivals}


def valid(p):
    t = _tables()
    enc = p["cfg"]["encoding"]
    for a in p["arrivals"]:
        us = [bytes.fromhex(u) for u in a["units"]]
        if not us:
            return False
        for i, u in enumerate(us):
            last = i == len(us) - 1
            special = u in t["prefixes"] or (enc == "utf-8" and len(u) == 1 and u[0] >= 0x80)
            if special and not last and not a.get("followed"):
                return False
        total = sum(len(u) for u in us)
        if "split_at" in a and not (1 <= a["split_at"] <= total - 1):
            return False
    return True


def _simp(p):
    if p["cfg"]["read_size"] != 1024:
        q = planmod.clone(p)
        q["cfg"]["read_size"] = 1024
        yield q
    for key, simple in (("keynames_enum", False), ("paste_threshold", None)):
        if p["cfg"].get(key, simple) != simple:
            q = planmod.clone(p)
            q["cfg"][key] = simple
            yield q
    for i, a in enumerate(p["arrivals"]):
        if "split_at" in a:
            q = planmod.clone(p)
            del q["arrivals"][i]["split_at"]
            yield q
        for j in range(len(a["units"])):
            if len(a["units"]) > 1:
                q = planmod.clone(p)
                del q["arrivals"][i]["units"][j]
                if "split_at" in q["arrivals"][i]:
                    del q["arrivals"][i]["split_at"]
                yield q


SIMPLIFIERS = (_simp,)


def _expected_name(mode, b, enc, t):
    """name of the keypress with bytes b in naming mode `mode`, from the statement: table name, else the character"""
    if mode == "bytes":
        return b
    table = t["cu"] if mode == "curtsies" else t["cs"]
    if b in table:
        return table[b]
    try:
        return b.decode(enc)
    except UnicodeDecodeError:
        if mode == "curses" and len(b) == 1:
            return "x%02X" % b[0]
        return None          # no expectation derivable


def run_plan(p, keep_log=False):
    import hashlib
    t = _tables()
    out = {"violation": None, "error": None, "probes": {}, "faults": {}, "states": set(), "nsteps": 0, "sim_s": 0.0,
           "pairs": set()}
    hh = hashlib.sha1()
    runs = {}
    logs = []
    for mode in ("bytes", "curtsies", "curses"):
        r = _run_mode(p, mode, keep_log)
        runs[mode] = r
        hh.update(r["digest"].encode())
        for k, v in r["probes"].items():
            out["probes"][k] = out["probes"].get(k, 0) + v
        for k, v in r["faults"].items():
            out["faults"][k] = out["faults"].get(k, 0) + v
        out["nsteps"] += r["nsteps"]
        out["sim_s"] += r["sim_s"]
        if keep_log:
            logs += ["--- mode %s" % mode] + r["log"]
        if r["error"]:
            out["error"] = r["error"]
            break
        if r["violation"]:
            out["violation"] = r["violation"]
            break
    out["digest"] = hh.hexdigest()
    if keep_log:
        out["log"] = logs
    if out["error"] or out["violation"]:
        out["nontrivial"] = True
        return out
    enc = p["cfg"]["encoding"]
    probes = out["probes"]
    for mode in ("bytes", "curtsies", "curses"):
        v = _judge_mode(mode, runs[mode], enc, t, out, count_probes=(mode == "bytes"))
        if v is not None:
            out["violation"] = v
            return out
    out["states"].update("P|%x" % h for h in out["pairs"])
    out["nontrivial"] = any(probes.get(k) for k in ("situation_c_read_size", "situation_c_split", "prefix_key_at_read_end",
                                                    "meta_byte_at_read_end", "utf8_len2", "utf8_len3", "utf8_len4",
                                                    "table_esc_unit"))
    return out


def _spans(mode, items, stream, enc, t):
    """byte span of every returned keypress: in bytes mode the item itself; in a naming mode the byte strings
    that name can stand for (reverse table, the character's encoding, curses' xNN form), matched against the
    stream.  Returns (spans, None) or (None, index of the first item that matches nothing)."""
    spans, pos = [], 0
    rev = t["rev_" + mode] if mode != "bytes" else None
    for i, it in enumerate(items):
        if mode == "bytes":
            cands = [it] if isinstance(it, bytes) else []
        else:
            # (a name stands for whatever either table lists under it: which table name a mode uses for a
            # sequence its own table does not contain is judged -- or left free -- by the naming clause below)
            cands = (list(t["rev_curtsies"].get(it, ())) + list(t["rev_curses"].get(it, ()))) if isinstance(it, str) else []
            if isinstance(it, str):
                try:
                    cands.append(it.encode(enc))
                except UnicodeError:
                    pass
                if mode == "curses" and len(it) == 3 and it[0] == "x":
                    try:
                        cands.append(bytes([int(it[1:], 16)]))
                    except ValueError:
                        pass
        hit = None
        for c in sorted(set(cands), key=len, reverse=True):
            if c and stream[pos:pos + len(c)] == c:
                hit = c
                break
        if hit is None:
            return None, i
        spans.append((pos, pos + len(hit)))
        pos += len(hit)
    return spans, None


def _judge_mode(mode, r, enc, t, out, count_probes):
    """the statement, applied to one naming mode's run on its own"""
    items, stream, reads = r["items"], r["stream"], r["read_bounds"]
    spans, bad = _spans(mode, items, stream, enc, t)
    if spans is None:
        return {"invariant": "bytes_lost_duplicated_or_reordered", "step": bad,
                "detail": {"mode": mode, "item": repr(items[bad]), "items_before": [repr(x) for x in items[max(0, bad - 3):bad]],
                           "stream": repr(stream[:80])}}
    covered = spans[-1][1] if spans else 0
    if covered != len(stream):
        return {"invariant": "bytes_lost_duplicated_or_reordered", "step": len(items),
                "detail": {"mode": mode, "returned_bytes": covered, "stream_bytes": len(stream),
                           "note": "every arrival was delivered completely and ends with a whole key: nothing may be held back"}}
    # asks for more input only while the bytes so far can still grow: once an arrival that ends with a whole
    # key has been fetched, everything that arrived has been returned
    for nitems, slen in r["fetched"]:
        got = spans[nitems - 1][1] if nitems else 0
        if got != slen:
            return {"invariant": "asked_for_more_input_needlessly", "step": nitems,
                    "detail": {"mode": mode, "returned_bytes": got, "arrived_bytes": slen,
                               "held_back": repr(stream[got:slen])}}
    start_of = {a: i for i, (a, b) in enumerate(spans)}
    probes = out["probes"]
    table = {"bytes": None, "curtsies": t["cu"], "curses": t["cs"]}[mode]
    for u in r["units"]:
        s_, e_, special, followed, in_split = u["s"], u["e"], u["special"], u["followed"], u["split"]
        cut = in_split or any(s_ < x < e_ for x in reads)
        b = stream[s_:e_]
        cls = _unit_class(b, enc, t)
        sit = "c" if cut else "a" if e_ in reads else "b"
        if count_probes:
            if cut:
                k = "situation_c_split" if in_split else "situation_c_read_size"
                probes[k] = probes.get(k, 0) + 1
                fk = "split_arrival" if in_split else "read_boundary_split"
                out["faults"][fk] = out["faults"].get(fk, 0) + 1
            else:
                probes["situation_" + sit] = probes.get("situation_" + sit, 0) + 1
                if sit == "a" and special:
                    k = "prefix_key_at_read_end" if b in t["prefixes"] else "meta_byte_at_read_end"
                    probes[k] = probes.get(k, 0) + 1
            probes[cls] = probes.get(cls, 0) + 1
            out["states"].add("%s|%s|%s" % (enc, sit, cls))
            if cls.startswith("table"):
                out["states"].add("E|%s|%s|%s" % (enc, sit, b.hex()))
                nb = stream[e_:e_ + 8]
                if sit == "b" and nb:
                    for ln in range(min(7, len(nb)), 0, -1):
                        if bytes(nb[:ln]) in t["cu"] or bytes(nb[:ln]) in t["cs"]:
                            out["pairs"].add(hash((b, bytes(nb[:ln]))) & 0xFFFFFFFFFFFF)
                            break
        if sit == "c" or followed or u["after_followed"]:
            continue
        if special and sit != "a":
            continue
        i = start_of.get(s_)
        if i is None or spans[i] != (s_, e_):
            return {"invariant": "unit_broken_up_or_merged", "step": i or 0,
                    "detail": {"mode": mode, "unit": repr(b), "situation": sit, "encoding": enc,
                               "items_around": [repr(x) for x in items[max(0, (i or 0) - 1):(i or 0) + 3]],
                               "context": repr(stream[max(0, s_ - 4):e_ + 6])}}
        if mode == "bytes":
            continue
        # its name: the table name of this naming mode, or - for a character - the character itself
        try:
            ch = b.decode(enc)
        except UnicodeDecodeError:
            ch = None
        is_char = ch is not None and len(ch) == 1
        allowed = []
        if b in table:
            allowed.append(table[b])
        if is_char:
            allowed.append(ch)            # (a byte that is both a table entry and a character may be reported as either)
        if not allowed:
            continue                      # no name is prescribed for this sequence in this naming mode
        if b in table and (not is_char or b[0] < 0x80):
            allowed = [table[b]]      # (a 7-bit table entry - Ctrl keys, space, tab, backspace - has a name: use it)
        if items[i] not in allowed:
            return {"invariant": "keypress_misnamed", "step": i,
                    "detail": {"mode": mode, "bytes": repr(b), "returned": repr(items[i]), "allowed": [repr(x) for x in allowed],
                               "encoding": enc, "situation": sit}}
    return None


def _unit_class(b, enc, t):
    if b in t["cu"] or b in t["cs"]:
        return "table_esc_unit" if b[:1] == b"\x1b" else "table_single_unit"
    return "utf8_len%d" % len(b) if enc == "utf-8" else "char_single_byte"


def _run_mode(p, mode, keep_log):
    cfg = p["cfg"]
    s = setup.make({"h": 2, "w": 10, "read_size": cfg["read_size"], "encoding": cfg["encoding"], "yield_cap": 2000000,
                    "locale_name": cfg.get("locale_name")}, None, keep_log)
    world, kernel = s.world, s.kernel
    res = {"violation": None, "error": None, "probes": world.probes, "faults": world.faults, "nsteps": 0,
           "items": [], "stream": b"", "units": [], "read_bounds": set(), "left_in_buffer": b"", "fetched": []}
    world.probe({"utf-8": "enc_utf8", "latin-1": "enc_latin1", "ascii": "enc_ascii"}[cfg["encoding"]])
    try:
        _exec(p, mode, s, res)
    except HarnessError as e:
        res["error"] = "harness: %s" % e
    except (StepCap, Quiescent) as e:
        res["error"] = "unexpected %s" % type(e).__name__
    finally:
        setup.finish(s)
    res["digest"] = world.log.digest()
    res["sim_s"] = world.now - world.t0
    if keep_log:
        res["log"] = world.log.entries
    return res


def _exec(p, mode, s, res):
    from curtsies.input import Input
    world, kernel = s.world, s.kernel
    stream = bytearray()
    total_read = [0]

    def on_read(fd, data):
        total_read[0] += len(data)
        res["read_bounds"].add(total_read[0])
    kernel.on_tty_read = on_read
    from curtsies import events as _ev
    kn = mode
    if p["cfg"].get("keynames_enum") and hasattr(_ev, "Keynames"):
        kn = {"bytes": _ev.Keynames.BYTES, "curtsies": _ev.Keynames.CURTSIES, "curses": _ev.Keynames.CURSES}[mode]
    inp = Input(in_stream=s.inp, keynames=kn, paste_threshold=p["cfg"].get("paste_threshold"))

    def fetch(limit=10000):
        n = 0
        while n < limit:
            n += 1
            res["nsteps"] += 1
            try:
                r = inp.send(0)
            except HarnessError:
                raise
            except Exception as e:
                if environment_artefact(e):
                    raise HarnessError("stub-environment artefact: %s: %s" % (type(e).__name__, e))
                import traceback
                res["violation"] = {"invariant": "decoder_failed_on_valid_input", "step": len(res["items"]),
                                    "detail": {"exception": "%s: %s" % (type(e).__name__, e), "mode": mode,
                                               "encoding": p["cfg"]["encoding"],
                                               "stream_so_far": repr(bytes(stream[-24:])),
                                               "where": traceback.format_exc(limit=-2)[-400:]}}
                return False
            if r is None:
                return True
            if isinstance(r, _ev.PasteEvent):
                world.probe("paste_event")
                for k in r.events:
                    world.log.add("key", k)
                    res["items"].append(k)
                continue
            world.log.add("key", r)
            res["items"].append(r)
        res["violation"] = {"invariant": "decoder_never_finished", "step": 0, "detail": {}}
        return False

    after_followed = False
    with inp:
        for a in p["arrivals"]:
            us = [bytes.fromhex(u) for u in a["units"]]
            data = b"".join(us)
            off = len(stream)
            followed = bool(a.get("followed"))
            split_at = a.get("split_at")
            for i, u in enumerate(us):
                special = u in _tables()["prefixes"] or (p["cfg"]["encoding"] == "utf-8" and len(u) == 1 and u[0] >= 0x80)
                in_split = split_at is not None and off - len(stream) < split_at < off - len(stream) + len(u)
                res["units"].append({"s": off, "e": off + len(u), "special": special,
                                     "followed": followed and i >= len(us) - 2, "split": in_split,
                                     "after_followed": False})
                off += len(u)
            if followed:
                world.probe("prefix_key_followed_in_buffer")
            base = len(stream)
            stream.extend(data)
            if split_at is None:
                kernel.arrive(s.fd, data)
                world.log.add("arrive", data)
                if not fetch():
                    break
                res["fetched"].append((len(res["items"]), len(stream)))
            else:
                kernel.arrive(s.fd, data[:split_at])
                world.log.add("arrive_part", data[:split_at])
                world.fault("split_arrival")
                ok = True
                for _ in range(a.get("between", 1) + 1):
                    ok = fetch()
                    if not ok:
                        break
                if not ok:
                    break
                kernel.arrive(s.fd, data[split_at:])
                world.log.add("arrive_rest", data[split_at:])
                if len(b"".join(x if isinstance(x, bytes) else b"" for x in res["items"])) < base + split_at and mode == "bytes":
                    world.probe("partial_key_completed_later")
                if not fetch():
                    break
                res["fetched"].append((len(res["items"]), len(stream)))
        res["left_in_buffer"] = b""      # every arrival was delivered completely: nothing may be held back
    res["stream"] = bytes(stream)
