"""C08 -- Input returns every byte and triggered event exactly once, in order.

The real curtsies Input on the simulated kernel: tty, pipes, select, clock, signals;
the app thread and 0..3 trigger threads are real threads run one at a time (baton
passing) with pre-emption at every seam call and at every line of curtsies/input.py.
A reference queue model judges every request.                       DESIGN.md 6.
"""

import random
import re
import signal as _signal
import sys

from sim import setup, plan as planmod
from sim.world import environment_artefact, HarnessError, StepCap, Quiescent, SimAbort

PROP = "C08"
LEVEL = "exploration"
COUNTS = {"quick": 16000, "thorough": 900000}
MAX_SECONDS = {"quick": 100, "thorough": 1500}
DET_EVERY = {"quick": 40, "thorough": 400}
SHRINK_BUDGET = 700
LIST_KEYS = ("main", "env", "threads.0", "threads.1", "threads.2", "sched.decisions")

RULE = ("one evaluation = one seeded execution of a workload (requests with time-outs 0/small/large/None, unget_bytes, "
        "event/scheduled/threadsafe trigger calls, byte arrivals from single keys to multi-kilobyte bursts, SIGINT/SIGWINCH, "
        "0..3 trigger threads, two triggers of each kind, requests also through next(), a cursor query by a window sharing "
        "the tty, a second Input that must keep what was put into it) against a real Input under a seeded scheduler (PCT-like forced pre-emptions + switch "
        "probability, pre-emption points at every seam call and every line of the package except the per-byte decoding "
        "functions), followed by a drain; "
        "every request is judged against a reference queue model. distinct = distinct SHA-1 of the full event log (every "
        "seam call with arguments and results, every scheduling decision, every oracle observation); non-trivial = at least "
        "one fault kind fired (pre-emption, stale wake-up, short read, burst, signal, time-out expiry, ...) ")
STATE_DEF = ("sampled at every request start: (queued events?, threadsafe events?, scheduled pending/due, bytes buffered?, "
             "bytes unread on the tty?, stale wake-up bytes?, time-out class, threads alive)")
COMPONENTS = {
    "real": ["curtsies.input.Input (send/_send/find_key, _wait_for_read_ready_or_timeout, _nonblocking_read, trigger factories, "
             "sigint handling, __enter__/__exit__)", "curtsies.events.get_key and tables", "curtsies.termhelpers.Nonblocking",
             "tty.cfmakecbreak", "threading (real threads, one running at a time)"],
    "stub": ["kernel tty / pipes / select / fcntl / termios: sim.kernel.Kernel", "time.time: virtual clock",
             "signal.signal/getsignal/set_wakeup_fd + delivery: sim.kernel.Signals", "thread scheduling: sim.world (baton passing, sys.settrace line events)",
             "user / signal source: timed environment events"],
}
ASSUMPTIONS = [
    "signal delivery (wake-up byte + Python handler) is one atomic step at seam calls and line boundaries; KeyboardInterrupt only out of select/os.read",
    "arrivals are whole keypresses except in the split_arrival slice, where only byte conservation is judged",
    "scheduled_event_trigger callbacks are called on the app thread between requests only; event_trigger and threadsafe callbacks also from other threads",
    "an event queued through event_trigger during a blocked request is deliverable to the next request, not to the blocked one (documented behaviour)",
    "a scheduled event is 'due' when its time is strictly less than the clock (the code's own rule)",
]
PROBES = ["event_queued_while_bytes_buffered", "two_scheduled_due", "equal_when", "stale_wakeup_spurious", "two_spurious_in_one_request",
          "interrupted_with_sigint_event", "interrupted_without_sigint_event", "paste_event", "paste_refilled", "char_cut_by_read",
          "threshold_none_burst_gt_read_size", "timeout_expired", "unget_ahead_of_stream", "keyboardinterrupt_torn_request",
          "threadsafe_event_woke_blocked_request", "callback_preempted_between_append_and_write", "sentinel_injected",
          "sigwinch_wakeup", "scheduled_woke_request", "pipe_full_block", "multi_kb_burst", "trigger_created_mid_run",
          "cursor_query", "cursor_query_with_typeahead", "typed_before_enter", "context_reentered",
          "app_on_non_main_thread", "trigger_fired_from_signal_handler"]
TRIGGERS = {}


def extra_coverage(agg):
    sites = sorted((int(x.split("|")[1]), int(x.split("|")[2])) for x in agg["states"] if x.startswith("S|"))
    return {"distinct_preemption_sites_line_of_input_py": len(sites),
            "preempted_app_thread_at_lines": [ln for ln, trig in sites if not trig],
            "preempted_trigger_thread_at_lines": [ln for ln, trig in sites if trig]}


KEYS_ASCII = [b"a", b"b", b"c", b"x", b"y", b"z", b" ", b"\n", b"\t", b"\x7f", b"\x01", b"\x04", b"1", b"Q", b"~", b"["]
KEYS_MB = ["é".encode(), "ß".encode(), "€".encode(), "語".encode(), "😀".encode(), "λ".encode()]
KEYS_ESC = [b"\x1b[A", b"\x1b[B", b"\x1b[C", b"\x1b[D", b"\x1bOP", b"\x1b[15~", b"\x1b[1;5C", b"\x1b[1;10A", b"\x1b[3~",
            b"\x1bb", b"\x1b\x7f", b"\x1b[Z", b"\x1bOA", b"\x1b[24~"]


def _units(rng, mix):
    r = rng.random()
    if r < mix[0]:
        return rng.choice(KEYS_ASCII)
    if r < mix[0] + mix[1]:
        return rng.choice(KEYS_MB)
    return rng.choice(KEYS_ESC)


def _burst(rng, mix, nkeys):
    return [_units(rng, mix) for _ in range(nkeys)]


def _burst_size(rng, big):
    r = rng.random()
    if r < 0.55:
        return 1
    if r < 0.8:
        return rng.randint(2, 6)
    if r < 0.95 or not big:
        return rng.randint(7, 40)
    return rng.randint(200, 900)


def gen_plan(seed, tier, index=0, avoid=()):
    rng = random.Random(seed)
    slice_ = index % 8
    faulty = slice_ != 0                     # slice 0: fault-free configuration (no signals, no pre-emption, no split)
    split = slice_ == 7                      # split_arrival slice
    big = rng.random() < (0.25 if tier == "thorough" else 0.12)
    mix = rng.choice(((0.8, 0.1, 0.1), (0.34, 0.33, 0.33), (0.1, 0.6, 0.3), (0.1, 0.2, 0.7)))
    nthreads = rng.choice((0, 0, 1, 1, 2, 3)) if faulty else rng.choice((0, 1))
    nts = rng.choice((0, 1, 1, 2, 3)) if nthreads or rng.random() < 0.5 else 0
    if nthreads and not nts:
        nts = 1
    cfg = {
        "read_size": rng.choice((7, 8, 16, 64, 1024, 1024)),
        "paste_threshold": rng.choice((None, 0, 1, 2, 7, 8, 8, 8, 20, 1000, 1023, 1024)),
        "keynames": rng.choice(("bytes", "bytes", "bytes", "curtsies", "curses")),
        "keynames_enum": rng.random() < 0.3,
        "locale_name": rng.choice(("utf-8", "UTF-8", "utf8")),
        "falsy_every": rng.choice((0, 0, 0, 2, 3)),       # some injected events are falsy objects
        "winch_trigger": False,
        "tty_fd0": rng.random() < 0.1,                    # the stream is descriptor 0, as sys.__stdin__ is
        # the application uses the Input from a thread that is not the main thread (no signal wake-up pipe there)
        "app_main": not (faulty and rng.random() < 0.12),
        # typed before the Input context is entered / while it is left and entered again
        "pre_typed": (b"".join(_burst(rng, mix, rng.randint(1, 5))).hex() if rng.random() < 0.15 and not split else ""),
        "sigint_event": rng.random() < 0.5,
        "sigint_handler": rng.choice(("default", "app")),
        "dts": rng.random() < 0.3,
        "pipe_cap": rng.choice((65536, 65536, 4096, 256, 64)),
        "tick": rng.choice((0.0, 1e-6, 1e-4)),
        "time_cost": rng.choice((0.0, 0.0, 1e-7, 1e-5, 1e-3)),
        "overshoot": rng.choice((0.0, 1e-6, 1e-3)),
        "nts": nts,
        "split": split,
        "_": None,
        # fault short_read: the kernel hands out fewer bytes than asked for and available (read ordinal -> cap)
        "short_reads": ({str(rng.randint(1, 30)): rng.choice((1, 2, 3, 5)) for _ in range(rng.randint(1, 4))}
                        if faulty and rng.random() < 0.2 else {}),
        # fault read_eio: os.read of the stream fails with EIO at these read ordinals; the request raises,
        # nothing may be lost, later requests deliver everything
        # (not generated: C08's quantifier has no I/O errors in it, and an EIO in the middle of the paste loop
        # loses the half-built paste -- an exception at an arbitrary point of a request, which the property
        # does not cover; the hook stays for hand-written plans)
        "eio_reads": [],
    }
    del cfg["_"]
    cfg["platform"] = "darwin" if rng.random() < 0.08 else None     # Input.__enter__ has a darwin-only block
    # a second Input on another tty holds an event, a scheduled event and ungot bytes of its own and is never
    # read until the end: nothing of it may come out of the Input under test, and it keeps all of it
    cfg["decoy"] = rng.random() < 0.2
    # a SIGWINCH handler that fires a threadsafe trigger (bpython's wiring); with the application on a worker
    # thread the handler - and so the callback - runs on the main thread
    cfg["winch_trigger"] = bool(faulty and nts > 0 and cfg["pipe_cap"] >= 65536
                                and rng.random() < (0.6 if not cfg["app_main"] else 0.2))
    nmain = rng.choice((3, 6, 10, 20, rng.randint(1, 60 if tier == "quick" else 150)))
    main = []
    env = []
    t = 0.0
    sched_slots = [round(rng.uniform(-0.5, 3.0), 3) for _ in range(3)]
    equal_ok = "equal_when" not in avoid
    for _ in range(nmain):
        r = rng.random()
        if r < 0.45:
            main.append({"op": "send", "timeout": rng.choice((0, 0, 0.01, 0.3, 2.0, None))})
            if main[-1]["timeout"] is None and rng.random() < 0.3:
                main[-1]["via_next"] = True          # the request is next(inp): iteration is send(None)
        elif r < 0.60 and not split:
            data = b"".join(_burst(rng, mix, _burst_size(rng, big)))
            main.append({"op": "arrive", "data": data.hex()})
        elif r < 0.66 and not split:
            main.append({"op": "unget", "data": b"".join(_burst(rng, mix, rng.randint(1, 4))).hex()})
        elif r < 0.74:
            main.append({"op": "event", "trig": int(rng.random() < 0.3)})
        elif r < 0.84:
            if equal_ok and rng.random() < 0.4:
                main.append({"op": "sched", "at": rng.choice(sched_slots), "trig": int(rng.random() < 0.4)})   # absolute slots: equal times happen
            else:
                main.append({"op": "sched", "at": round(rng.uniform(-0.5, 4.0), 6) + rng.random() * 1e-7, "trig": int(rng.random() < 0.3)})
        elif r < 0.90 and nts:
            main.append({"op": "ts_call", "trig": rng.randrange(nts)})
        elif r < 0.925:
            main.append({"op": "sleep", "dt": rng.choice((0.001, 0.05, 0.5))})
        elif r < 0.93 and not split:
            main.append({"op": "reenter"})       # leave the context and enter it again (same object)
        elif r < 0.95 and not split:
            # a CursorAwareWindow sharing the tty asks for the cursor position between two requests; what was
            # typed ahead of the terminal's report is handed back through unget_bytes (bpython's wiring)
            main.append({"op": "cursor_query"})
        else:
            main.append({"op": "send", "timeout": rng.choice((0.01, None))})
            if main[-1]["timeout"] is None and rng.random() < 0.3:
                main[-1]["via_next"] = True
    # timed environment: user typing and signals while the app runs / is blocked
    nenv = rng.choice((0, 1, 2, 4, 8)) if faulty else rng.choice((0, 1, 2))
    storm = faulty and rng.random() < 0.15
    if storm:
        nenv += rng.randint(3, 10)
    if faulty and not cfg["winch_trigger"] and rng.random() < (0.01 if tier == "thorough" else 0.003):
        # a window being dragged: a flood of SIGWINCHs during (probably) one blocked request
        t0_ = round(rng.uniform(0.0, 3.0), 4)
        for k_ in range(rng.choice((300, 1200, 2500))):
            env.append({"t": round(t0_ + k_ * 1e-5, 6), "kind": "sigwinch"})
    if faulty and rng.random() < 0.06:
        # a key held down on ^C: several SIGINTs at distinct instants, close enough to fall between two requests
        t0_ = round(rng.uniform(0.0, 4.0), 4)
        gap_ = rng.choice((0.0002, 0.004, 0.06))
        for k_ in range(rng.randint(3, 6)):
            env.append({"t": round(t0_ + k_ * gap_, 6), "kind": "sigint"})
    for _ in range(nenv):
        t = round(rng.uniform(0.0, 6.0), 4)
        k = rng.random()
        if storm:
            k = 0.6 + 0.4 * k
        if k < 0.6 or not faulty:
            data = b"".join(_burst(rng, mix, _burst_size(rng, big)))
            env.append({"t": t, "kind": "arrive", "data": data.hex()})
        elif k < 0.85:
            env.append({"t": t, "kind": "sigint"})
        else:
            env.append({"t": t, "kind": "sigwinch"})
    if split:
        # an arrival boundary inside a key: the first part now, the rest later
        for pair in range(rng.randint(1, 3)):
            key = rng.choice(KEYS_MB + KEYS_ESC)
            cut = rng.randint(1, len(key) - 1)
            t = round(rng.uniform(0.0, 4.0), 4)
            pre = b"".join(_burst(rng, mix, rng.randint(0, 3)))
            env.append({"t": t, "kind": "arrive", "data": (pre + key[:cut]).hex(), "split": True, "pair": pair, "half": 1})
            env.append({"t": round(t + rng.choice((0.0005, 0.02, 0.7)), 4), "kind": "arrive", "data": key[cut:].hex(),
                        "split": True, "pair": pair, "half": 2, "key": key.hex(), "cut": cut})
    # some threadsafe triggers are created while the run is under way (a new pipe joins the select set)
    late = rng.randint(0, nts) if rng.random() < 0.3 else 0
    cfg["nts_initial"] = nts - late
    for _ in range(late):
        main.insert(rng.randint(0, len(main)), {"op": "mk_ts"})
    env.sort(key=lambda e: e["t"])
    if split:
        # nothing else may arrive between the two halves of a split key
        spans = [(e["t"], f["t"]) for e in env for f in env
                 if e.get("split") and f.get("split") and e["pair"] == f["pair"] and e["half"] == 1 and f["half"] == 2]
        env = [e for e in env if e.get("split") or e["kind"] != "arrive"
               or not any(a <= e["t"] <= b for a, b in spans)]
        # halves of different pairs must not interleave either
        keep, last_end = [], -1.0
        for e in env:
            if e.get("split") and e["half"] == 1:
                end = [f["t"] for f in env if f.get("split") and f["pair"] == e["pair"] and f["half"] == 2][0]
                if e["t"] <= last_end:
                    e["_drop"] = True
                    for f in env:
                        if f.get("split") and f["pair"] == e["pair"]:
                            f["_drop"] = True
                else:
                    last_end = end
        env = [e for e in env if not e.get("_drop")]
    threads = []
    for _ in range(nthreads):
        th = []
        for _j in range(rng.randint(1, 8 if tier == "quick" else 20)):
            k = rng.random()
            if k < 0.55:
                th.append({"op": "ts_call", "trig": rng.randrange(nts)})
            elif k < 0.7:
                th.append({"op": "event", "trig": int(rng.random() < 0.3)})
            else:
                th.append({"op": "sleep", "dt": rng.choice((0.0001, 0.01, 0.3, 1.0))})
        threads.append(th)
    if faulty:
        d = rng.choice((0, 1, 2, 3, 6))
        forced = sorted(set(int(10 ** rng.uniform(0, 3.7)) for _ in range(d)))
        sched = {"mode": "rng", "seed": rng.getrandbits(32), "p": rng.choice((0.0, 0.02, 0.15, 0.5)), "forced": forced}
    else:
        sched = {"mode": "rng", "seed": rng.getrandbits(32), "p": 0.0, "forced": []}
    return {"prop": PROP, "seed": seed, "cfg": cfg, "main": main, "env": env, "threads": threads, "sched": sched}


def valid(p):
    cfg = p["cfg"]
    for th in p["threads"]:
        for st in th:
            if st["op"] == "ts_call" and st["trig"] >= cfg["nts"]:
                return False
    for st in p["main"]:
        if st["op"] == "ts_call" and st["trig"] >= cfg["nts"]:
            return False
    # a split arrival stays a split arrival: both halves present, intact and in order, nothing else in between
    halves = [(i, e) for i, e in enumerate(p["env"]) if e.get("split")]
    pairs = {}
    for i, e in halves:
        pairs.setdefault(e["pair"], []).append((i, e))
    for k, lst in pairs.items():
        if len(lst) != 2 or lst[0][1]["half"] != 1 or lst[1][1]["half"] != 2:
            return False
        (i1, e1), (i2, e2) = lst
        key, cut = bytes.fromhex(e2["key"]), e2["cut"]
        if not bytes.fromhex(e1["data"]).endswith(key[:cut]) or bytes.fromhex(e2["data"]) != key[cut:]:
            return False
        if e1["t"] > e2["t"]:
            return False
        for j in range(i1 + 1, i2):
            if p["env"][j]["kind"] == "arrive":
                return False
    if halves and any(st["op"] in ("arrive", "unget") for st in p["main"]):
        return False
    return True


def _simp(p):
    cfg = p["cfg"]
    if cfg.get("eio_reads"):
        for k in list(cfg["eio_reads"]):
            q = planmod.clone(p)
            q["cfg"]["eio_reads"].remove(k)
            yield q
    if cfg.get("short_reads"):
        for k in list(cfg["short_reads"]):
            q = planmod.clone(p)
            del q["cfg"]["short_reads"][k]
            yield q
    for key, simple in (("tick", 0.0), ("time_cost", 0.0), ("overshoot", 0.0), ("pipe_cap", 65536), ("dts", False),
                        ("read_size", 1024), ("sigint_handler", "default"), ("sigint_event", False), ("keynames", "bytes"),
                        ("keynames_enum", False), ("app_main", True), ("pre_typed", ""), ("falsy_every", 0),
                        ("winch_trigger", False), ("tty_fd0", False)):
        if cfg.get(key, simple) != simple:
            q = planmod.clone(p)
            q["cfg"][key] = simple
            yield q
    if p["threads"] and not p["threads"][-1]:
        q = planmod.clone(p)
        q["threads"].pop()
        yield q
    for i, st in enumerate(p["main"]):
        if st["op"] in ("arrive", "unget"):
            for cand in _shorter(bytes.fromhex(st["data"])):
                q = planmod.clone(p)
                q["main"][i]["data"] = cand.hex()
                yield q
        if st["op"] == "send" and st["timeout"] not in (0, None):
            q = planmod.clone(p)
            q["main"][i]["timeout"] = 0
            yield q
    for i, e in enumerate(p["env"]):
        if e["kind"] == "arrive" and not e.get("split"):
            for cand in _shorter(bytes.fromhex(e["data"])):
                q = planmod.clone(p)
                q["env"][i]["data"] = cand.hex()
                yield q


def _shorter(data):
    """shorter arrivals that still consist of whole keypresses"""
    lens = _key_lengths(data)
    if len(lens) < 2:
        return []
    cuts = [0]
    for n in lens:
        cuts.append(cuts[-1] + n)
    mid = cuts[len(lens) // 2]
    return [data[:mid], data[mid:], data[:cuts[-2]], data[cuts[1]:]]


SIMPLIFIERS = (_simp,)

_REV = {}


def _reverse_tables():
    if _REV:
        return _REV
    from curtsies import events
    cu, cs = {}, {}
    for seq, name in events.CURTSIES_NAMES.items():
        cu.setdefault(name, []).append(seq)
    for seq, name in events.CURSES_NAMES.items():
        cs.setdefault(name, []).append(seq)
    _REV["curtsies"] = cu
    _REV["curses"] = cs
    return _REV


def _candidates(key, mode):
    """byte strings a returned key may stand for (for the conservation law only)"""
    if isinstance(key, bytes):
        return [key]
    if not isinstance(key, str):
        return []
    rev = _reverse_tables()
    # (which of a sequence's table names a naming mode uses where its own table has none is not prescribed:
    # for conservation a name stands for whatever either table lists under it)
    out = list(rev["curtsies"].get(key, ())) + list(rev["curses"].get(key, ()))
    if mode == "curses":
        m = re.fullmatch(r"x([0-9A-F]{2})", key)
        if m:
            out.append(bytes([int(m.group(1), 16)]))
    try:
        out.append(key.encode("utf-8"))
    except UnicodeError:
        pass
    return out


_KEY_RE = re.compile(b"|".join(re.escape(k) for k in sorted(KEYS_ESC, key=len, reverse=True))
                     + b"|[\xc2-\xdf][\x80-\xbf]|[\xe0-\xef][\x80-\xbf]{2}|[\xf0-\xf4][\x80-\xbf]{3}|.", re.S)


def _key_lengths(data):
    """lengths of the typed keys in an arrival (own tokenizer over the workload's alphabet; a split
    arrival's halves simply give a boundary that is not a key end, which is what they are)"""
    return [len(m.group(0)) for m in _KEY_RE.finditer(data)]


class Ev:
    world = None
    falsy_every = 0       # every k-th event is falsy (an event class with __bool__/__len__ is legal)

    def __bool__(self):
        return not (Ev.falsy_every and self.n is not None and self.n % Ev.falsy_every == 0)

    def __init__(self, src=None, n=None):
        self.src, self.n = src, n
        w = Ev.world
        if w is not None and not w.aborting:
            w.at_line = 0
            w.yield_point()


class Model:
    """reference queue model: what went in, what has come out"""

    def __init__(self):
        self.entered = bytearray()       # bytes in the order they entered the Input's buffer (reads, ungets)
        self.pos = 0                     # how much of it has been returned
        self.q_events = []               # event_trigger serials completed, not yet returned
        self.ts_started = {}             # serial -> src, threadsafe calls started
        self.ts_completed = []           # serials whose callback returned, not yet returned by a request
        self.sched = []                  # (when, serial) registered, not yet returned
        self.returned_serials = set()
        self.last_per_src = {}
        self.sigints_sent = 0
        self.sigint_events = 0
        self.req_reads = []
        self.req_spans = []              # (start, end) in `entered` of each tty read of the current request
        self.serial = 0
        self.event_serials = {}          # serial -> ("event"|"ts"|"sched", src)
        self.ts_completed_seq = {}       # serial -> log sequence number when its callback had returned
        self.arrival_seq = None          # log sequence number when the tty queue last went from empty to non-empty
        self.boundaries = {0}            # offsets in the tty stream at which a typed key ends
        self.bound_list = [0]            # the same, ascending
        self.entered_bounds = {0}        # offsets in `entered` at which a typed key ends
        self.arrived_total = 0
        self.tty_read_total = 0
        self.bursts = []                 # (start, end) in `entered` of single tty reads of the Input larger than the
                                         # paste threshold whose keys have not come back yet

    def entered_bounds_sorted(self, a, b):
        """typed-key ends e with a < e <= b (offsets in `entered`)"""
        return [e for e in self.entered_bounds if a < e <= b]

    def new_serial(self, kind, src):
        self.serial += 1
        self.event_serials[self.serial] = (kind, src)
        return self.serial


def run_plan(p, keep_log=False):
    cfg = p["cfg"]
    s = setup.make({"h": 2, "w": 10, "read_size": cfg["read_size"], "pipe_cap": cfg["pipe_cap"], "tick": cfg["tick"],
                    "time_cost": cfg["time_cost"], "overshoot": cfg["overshoot"], "yield_cap": 600000,
                    "locale_name": cfg.get("locale_name"), "tty_fd0": cfg.get("tty_fd0", False),
                    "platform": cfg.get("platform")}, p["sched"], keep_log)
    world = s.world
    res = {"violation": None, "error": None, "probes": world.probes, "faults": world.faults,
           "states": set(), "nsteps": 0}
    try:
        _execute(p, s, res)
    except HarnessError as e:
        res["error"] = "harness: %s" % e
    except SimAbort:
        res["error"] = "SimAbort escaped to the main thread"
    finally:
        sys.settrace(None)
        Ev.world = None
        Ev.falsy_every = 0
        try:
            setup.finish(s)
        except HarnessError as e:
            res["error"] = res["error"] or "harness: %s" % e
    res["digest"] = world.log.digest()
    res["sim_s"] = world.now - world.t0
    res["states"].update("S|%d|%d" % site for site in world.preempt_sites)
    res["nontrivial"] = bool(world.faults)
    if res["violation"] and p["sched"].get("mode") == "rng":
        q = planmod.clone(p)
        q["sched"] = {"mode": "list", "decisions": list(world.sched.decisions)}
        res["violation"]["concrete_plan"] = q
    if keep_log:
        res["log"] = world.log.entries
    return res


def _violate(res, name, step, detail):
    if res["violation"] is None:
        res["violation"] = {"invariant": name, "step": step, "detail": detail}


def _execute(p, s, res):
    import curtsies.input as ci
    from curtsies import events
    from curtsies.input import Input
    cfg = p["cfg"]
    world, kernel = s.world, s.kernel
    M = Model()
    mode = cfg["keynames"]
    thr = cfg["paste_threshold"]
    import os as _os_
    pkg = _os_.path.dirname(ci.__file__) + _os_.sep
    hot = ("curtsieskeys.py", "formatstring.py", "formatstringarray.py", "escseqparse.py", "window.py")
    hot_funcs = ("get_key", "_key_name", "decodable", "could_be_unfinished_char", "could_be_unfinished_utf8",
                 "pp_event", "curtsies_name", "<genexpr>", "<listcomp>", "<lambda>")
    # (in events.py only the per-byte decoding functions are left untraced, not the file: a queue class that
    # lives next to the event classes is pre-empted line by line like the rest of the package)
    tracer = world.make_tracer(lambda fn: fn.startswith(pkg) and not fn.endswith(hot),
                               skip_func=lambda fn, name: fn.endswith("events.py") and name in hot_funcs)
    world.thread_tracer = tracer
    # constructing the event object is a pre-emption point in the middle of the callback's line (bytecode-level
    # tracing would give more of those, but CPython's 'opcode' events differ between the first and later
    # executions of a code object in one process, which breaks exact replay)
    Ev.world = world
    Ev.falsy_every = cfg.get("falsy_every", 0)

    class SEv(events.ScheduledEvent):
        def __init__(self, when):
            events.ScheduledEvent.__init__(self, when)
            self.n = SEv.next_serial[0]

        def __bool__(self):
            return not (Ev.falsy_every and self.n is not None and self.n % Ev.falsy_every == 0)

    SEv.next_serial = [None]

    class SEv2(SEv):          # a second scheduled_event_trigger with an event class of its own
        pass

    class Ev2(Ev):            # ... and a second event_trigger
        pass

    def on_tty_read(fd, data, in_request=True, by_input=True):
        import bisect
        a, base = M.tty_read_total, len(M.entered)
        i = bisect.bisect_right(M.bound_list, a)
        while i < len(M.bound_list) and M.bound_list[i] <= a + len(data):
            M.entered_bounds.add(base + M.bound_list[i] - a)
            i += 1
        M.entered.extend(data)
        if in_request:
            M.req_reads.append(len(data))
            M.req_spans.append((base, base + len(data)))
        if by_input and thr is not None and len(data) > thr:
            M.bursts.append((base, base + len(data)))
        M.tty_read_total += len(data)
        if M.tty_read_total not in M.boundaries:
            world.probe("char_cut_by_read")
            world.fault("read_boundary_split")
    def tty_read_observer(fd, data):
        # a read of the tty while the window asks for the cursor position is the window's: what of it belongs to
        # the Input comes back through unget_bytes and is booked there.  Every other read is the Input's own --
        # in a request or not (an implementation may take type-ahead over when the context is entered)
        if not in_window_query[0]:
            on_tty_read(fd, data, in_request[0])
    kernel.on_tty_read = tty_read_observer
    if cfg.get("short_reads"):
        kernel.read_faults[s.fd] = {int(k): ("cap", v) for k, v in cfg["short_reads"].items()}
    for k in cfg.get("eio_reads", ()):
        kernel.read_faults.setdefault(s.fd, {})[int(k)] = ("eio",)

    def app_handler(signum, frame):
        world.log.add("app_sigint_handler")
    app_handler.sim_name = "app_sigint_handler"
    if cfg["sigint_handler"] == "app":
        kernel.sig.handlers[_signal.SIGINT] = app_handler

    def env_signal(signum):
        if signum == _signal.SIGINT:
            M.sigints_sent += 1
            world.fault("sigint")
        else:
            world.fault("sigwinch_wakeup")
            world.probe("sigwinch_wakeup")
        kernel.sig.post(signum)
    world.env_handlers["signal"] = env_signal

    def winch_handler(signum, frame):
        if ts_cbs:
            world.probe("trigger_fired_from_signal_handler")
            call_ts(0, "winch")
    winch_handler.sim_name = "winch_fires_trigger"
    if cfg.get("winch_trigger"):
        kernel.sig.handlers[_signal.SIGWINCH] = winch_handler

    def note_arrival(data, partial_tail=0, completes=False):
        if completes:                       # second half of a split key: one key end, at its end
            M.arrived_total += len(data)
            M.boundaries.add(M.arrived_total)
            M.bound_list.append(M.arrived_total)
            return
        whole = data[:len(data) - partial_tail] if partial_tail else data
        for n in _key_lengths(whole):
            M.arrived_total += n
            M.boundaries.add(M.arrived_total)
            M.bound_list.append(M.arrived_total)
        M.arrived_total += partial_tail     # first half of a split key: no key end inside it

    def env_arrive(payload):
        if isinstance(payload, dict):
            data = bytes.fromhex(payload["data"])
            note_arrival(data, payload.get("partial_tail", 0), payload.get("completes", False))
        else:
            data = bytes.fromhex(payload)
            note_arrival(data)
        if len(data) > 1000:
            world.probe("multi_kb_burst")
        if not len(s.tty.inq):
            M.arrival_seq = world.log.n
        kernel.arrive(s.fd, data)
    world.env_handlers["arrive"] = env_arrive

    for e in p["env"]:
        if e["kind"] == "arrive":
            if e.get("split"):
                world.fault("split_arrival")
                if e["half"] == 1:
                    cut = [f["cut"] for f in p["env"] if f.get("split") and f["pair"] == e["pair"] and f["half"] == 2][0]
                    world.at(world.t0 + e["t"], "arrive", {"data": e["data"], "partial_tail": cut})
                else:
                    world.at(world.t0 + e["t"], "arrive", {"data": e["data"], "completes": True})
            else:
                world.at(world.t0 + e["t"], "arrive", e["data"])
        elif e["kind"] == "sigint":
            world.at(world.t0 + e["t"], "signal", int(_signal.SIGINT))
        else:
            world.at(world.t0 + e["t"], "signal", int(_signal.SIGWINCH))

    kn = mode
    if cfg.get("keynames_enum") and hasattr(events, "Keynames"):
        kn = {"bytes": events.Keynames.BYTES, "curtsies": events.Keynames.CURTSIES, "curses": events.Keynames.CURSES}[mode]
    inp = Input(in_stream=s.inp, keynames=kn, paste_threshold=thr, sigint_event=cfg["sigint_event"],
                disable_terminal_start_stop=cfg["dts"])
    decoy = None
    decoy_items = {}
    if cfg.get("decoy"):
        from sim.kernel import SimIn
        fd2, _tty2 = kernel.open_tty()
        decoy = Input(in_stream=SimIn(world, kernel, fd2, "utf-8"), keynames=kn, paste_threshold=None,
                      sigint_event=False)
        world.probe("second_input_object")
    ts_cbs = []
    ts_rfds = []          # read ends of the trigger pipes, in creation order (observed at the pipe() seam)
    ev_cb = [None, None]
    sched_cb = [None, None]
    sched_trig = {}           # serial of a scheduled event -> which scheduled_event_trigger it came from
    in_request = [False]
    in_window_query = [False]
    sentinel_count = [0]
    idle_jumps = [0]
    cur_timeout = [0]

    def deliverable_now():
        d = []
        if M.q_events:
            d.append("queued_event")
        if M.ts_completed:
            d.append("threadsafe_event")
        if any(w < world.now for w, n in M.sched):
            d.append("scheduled_due")
        if cfg["split"]:
            # arrivals may end inside a key: bytes are deliverable when a whole key is there
            import bisect
            i = bisect.bisect_right(M.bound_list, M.pos)
            if i < len(M.bound_list) and M.bound_list[i] <= M.arrived_total:
                d.append("whole_key_arrived")
        elif len(s.tty.inq) > 0:
            d.append("tty_bytes")
        elif M.pos < len(M.entered):
            d.append("buffered_bytes")
        return d

    def on_quiescent():
        # everything is blocked for good.  If the app sits in a request although something was
        # deliverable to it, that is the liveness violation; otherwise the user presses a key.
        if not in_request[0] or world.watch.state != "blocked":
            return False
        if len(s.tty.inq) > 0 or M.ts_completed or M.sched:
            return False      # something is (or will become) deliverable: the request has to wake up by itself
        sentinel_count[0] += 1
        if sentinel_count[0] > 50:
            return False
        world.probe("sentinel_injected")
        world.log.add("sentinel")
        note_arrival(b"Z")
        kernel.arrive(s.fd, b"Z")
        return True
    world.on_quiescent = on_quiescent

    def on_clock_jump(t_from, t_to):
        # the application thread sits blocked in a request while the clock moves on: a scheduled event whose
        # time had clearly passed before this wait began should have ended the wait
        if not in_request[0] or world.watch.blocked_in != "select":
            return
        req_jumps.append((t_from, t_to))       # the request sat in its wait while the clock moved from .. to ..
        if cur_timeout[0] is None and not world.env and not any(t.state == "blocked" and t.deadline is not None
                                                                for t in world.threads if t is not world.watch):
            # a request without time-out, nothing on its way, and only the request's own timer moves the clock:
            # it waits in slices.  For the workload that is the same as being blocked for good (the user
            # presses a key at last)
            idle_jumps[0] += 1
            if idle_jumps[0] >= 12:
                idle_jumps[0] = 0
                world.probe("polling_request_seen_as_idle")
                on_quiescent()
        late = [w for w, n in M.sched if w + 0.005 < t_from and n in req_sched_at_start[0]]
        if late:
            _violate(res, "blocked_past_due_scheduled_event", -1,
                     {"scheduled_for": late[0] - world.t0, "still_blocked_at": t_from - world.t0,
                      "clock_jumps_to": t_to - world.t0})
    world.on_clock_jump = on_clock_jump
    req_sched_at_start = [set()]
    req_jumps = []

    def waited_since(t):
        """how long the current request has sat blocked in select since time t (the clock also creeps with every
        system call and clock reading of a busy request - that is work, not waiting)"""
        return sum(b - max(a, t) for a, b in req_jumps if b > t)

    ts_completed_time = {}    # serial -> virtual time at which its threadsafe callback had returned

    def call_ts(k, who):
        n = M.new_serial("ts", (k, who))
        M.ts_started[n] = k
        world.log.add("ts_call", who, k, n)
        ts_cbs[k](src=k, n=n)
        ts_completed_time[n] = world.now
        if n not in M.returned_serials:      # (a request may already have returned it)
            M.ts_completed.append(n)
            M.ts_completed_seq[n] = world.log.n
        world.log.add("ts_done", who, k, n)

    def call_event(who, trig=0):
        n = M.new_serial("event", (who, trig))
        world.log.add("event_call", who, n, trig)
        ev_cb[trig](src=who, n=n)
        if n not in M.returned_serials:
            M.q_events.append(n)

    def thread_script(ti, steps):
        def run():
            for st in steps:
                if st["op"] == "sleep":
                    world.block_until(lambda: False, world.now + st["dt"], "sleep")
                elif st["op"] == "event":
                    call_event("t%d" % ti, st.get("trig", 0))
                else:
                    k = st["trig"]
                    if len(ts_cbs) <= k:
                        world.block_until(lambda: len(ts_cbs) > k, None, "wait_trigger")
                    call_ts(k, "t%d" % ti)
        return run

    def judge_key(key, si, in_paste):
        cands = _candidates(key, mode)
        rest = bytes(M.entered[M.pos:M.pos + 16])
        for c in sorted(set(cands), key=len, reverse=True):
            if c and M.entered[M.pos:M.pos + len(c)] == c:
                was_aligned = M.pos in M.entered_bounds
                M.pos += len(c)
                # (a paste that starts in the middle of a key whose beginning an earlier, non-paste request
                # already returned -- possible after a short read -- re-synchronises at the next key end)
                if in_paste and was_aligned and not cfg["split"] and not world.faults.get("short_read") \
                        and M.pos not in M.entered_bounds:
                    # keypresses arrive whole and the paste loop refills before its buffer runs out:
                    # inside a paste every returned key is a typed key
                    _violate(res, "paste_keypress_broken_up_or_merged", si,
                             {"returned_key": repr(key), "ends_at": M.pos,
                              "context": repr(bytes(M.entered[max(0, M.pos - 10):M.pos + 6]))})
                    return False
                return True
        _violate(res, "bytes_lost_duplicated_or_reordered", si,
                 {"returned_key": repr(key), "expected_next_bytes": repr(rest), "position": M.pos,
                  "entered_total": len(M.entered), "in_paste": in_paste})
        return False

    def do_send(si, timeout, draining=False, via_next=False):
        start = world.now
        deliv = deliverable_now()
        sched_pending = bool(M.sched)
        M.req_reads = []
        M.req_spans = []
        req_sched_at_start[0] = set(n for w, n in M.sched)
        pos0 = M.pos
        short0 = world.faults.get("short_read", 0)
        eio0 = world.faults.get("read_eio", 0)
        world.main_waited = False
        stale = sum(1 for fd in ts_rfds if fd is not None and kernel.readable(fd))
        res["states"].add("%d%d|%s|%d%d|%d|%s|%d" % (
            bool(M.q_events), bool(M.ts_completed), "due" if "scheduled_due" in deliv else "pend" if M.sched else "-",
            M.pos < len(M.entered), len(s.tty.inq) > 0, min(stale, 2),
            "N" if timeout is None else "0" if timeout == 0 else "s" if timeout < 0.1 else "L",
            sum(1 for t in world.threads[1:] if t.state != "done" and t is not world.watch)))
        if M.q_events and (M.pos < len(M.entered)):
            world.probe("event_queued_while_bytes_buffered")
        due = sorted(w for w, n in M.sched if w < world.now)
        if len(due) >= 2:
            world.probe("two_scheduled_due")
        spur0 = world.probes.get("stale_wakeup_spurious", 0)
        sig0 = kernel.sig.delivered
        sel0 = world.probes.get("select_blocked", 0)
        world.log.add("request", si, timeout, deliv)
        idle_jumps[0] = 0
        del req_jumps[:]
        cur_timeout[0] = timeout
        bursts0 = list(M.bursts)
        in_request[0] = True
        try:
            if via_next:
                world.probe("request_made_by_iteration")
                r = next(inp)
            else:
                r = inp.send(timeout)
        except KeyboardInterrupt:
            world.probe("keyboardinterrupt_torn_request")
            world.fault("keyboardinterrupt")
            world.log.add("request_torn", si)
            del M.bursts[:]       # (what a torn request had read stays buffered; how it comes back is not prescribed)
            return
        except (HarnessError, SimAbort, StepCap, Quiescent):
            raise
        except OSError as e:
            if environment_artefact(e):
                raise HarnessError("stub-environment artefact: %s: %s" % (type(e).__name__, e))
            if world.faults.get("read_eio", 0) > eio0:
                # an injected I/O error: the request fails, nothing is consumed, nothing may be lost
                world.probe("request_failed_with_injected_eio")
                world.log.add("request_eio", si)
                del M.bursts[:]
                return
            _violate(res, "request_raised", si, {"exception": "%s: %s" % (type(e).__name__, e), "timeout": timeout,
                                                 "deliverable": deliv})
            return
        except Exception as e:
            if environment_artefact(e):
                raise HarnessError("stub-environment artefact: %s: %s" % (type(e).__name__, e))
            import traceback
            _violate(res, "request_raised", si, {"exception": "%s: %s" % (type(e).__name__, e), "timeout": timeout,
                                                 "deliverable": deliv,
                                                 "where": traceback.format_exc(limit=-3)[-600:]})
            return
        finally:
            in_request[0] = False
        now = world.now
        reads = list(M.req_reads)
        kind = "none" if r is None else "key" if isinstance(r, (str, bytes)) else type(r).__name__
        world.log.add("returned", si, kind, r if isinstance(r, (str, bytes)) else getattr(r, "n", None), round(now - start, 9))
        if len(reads) > 1:
            world.probe("paste_refilled")
        if kernel.sig.delivered > sig0 and not cfg["sigint_event"] and world.main_waited:
            world.probe("interrupted_without_sigint_event")
        # trigger-pipe reads of this request that did not produce its result were stale wake-ups
        spurious = req_spur[0] - (1 if (isinstance(r, Ev) and M.event_serials.get(r.n, ("",))[0] == "ts" and world.main_waited) else 0)
        if spurious > 0:
            world.probe("stale_wakeup_spurious", spurious)
            world.fault("stale_wakeup", spurious)
            if spurious >= 2:
                world.probe("two_spurious_in_one_request")
        # ---- slept through something ----------------------------------------------------------
        # (a request that sat in its wait for long after a threadsafe callback had returned, or after a scheduled
        # event's time: only time spent blocked in select counts, not the work of a busy request)
        if world.main_waited and not res["violation"]:
            slept = [n for n in list(M.ts_completed) if start < ts_completed_time.get(n, now)
                     and waited_since(ts_completed_time[n]) > 0.05]
            if slept:
                _violate(res, "blocked_past_completed_threadsafe_event", si,
                         {"serials": slept[:5], "callback_returned_at": round(ts_completed_time[slept[0]] - world.t0, 6),
                          "request_returned_at": round(now - world.t0, 6), "timeout": timeout, "returned": kind})
                return
            if isinstance(r, SEv):
                w_ = [x[0] for x in M.sched if x[1] == r.n]
                if w_ and waited_since(max(w_[0], start)) > 0.05:
                    _violate(res, "scheduled_event_returned_late", si,
                             {"scheduled_for": round(w_[0] - world.t0, 6), "request_began": round(start - world.t0, 6),
                              "returned_at": round(now - world.t0, 6), "timeout": timeout})
                    return
        # ---- bytes ---------------------------------------------------------------------
        if isinstance(r, events.PasteEvent):
            world.probe("paste_event")
            world.fault("burst")
            for k in r.events:
                if not judge_key(k, si, True):
                    return
            live = [(a, b_) for a, b_ in M.bursts if b_ > pos0]
            if thr is None or (not live and len(M.entered) - pos0 <= thr):
                # (an implementation may add up what it reads in one go differently -- e.g. read until nothing is
                # left and compare the total -- but without more than paste_threshold bytes there is no burst)
                _violate(res, "paste_without_burst", si, {"reads": reads[:4], "paste_threshold": thr,
                                                          "bytes_not_yet_returned": len(M.entered) - pos0})
            if live and not cfg["split"] and not world.faults.get("short_read"):
                # the burst "read in one go": every typed key lying wholly inside it belongs in this paste (a key
                # cut by the end of that read may be completed now or left for the next request; short reads /
                # split arrivals: conservation only)
                a, b_ = live[0]
                whole = [x for x in M.entered_bounds_sorted(a, b_)]
                need = max(whole) if whole else a
                if M.pos < need:
                    _violate(res, "paste_does_not_cover_burst", si,
                             {"covered_to": M.pos, "burst": [a, b_], "last_whole_key_ends_at": need})
            M.bursts[:] = [(a, b_) for a, b_ in M.bursts if a >= M.pos]
        elif isinstance(r, (str, bytes)):
            if isinstance(r, bytes) != (mode == "bytes"):
                _violate(res, "keypress_of_wrong_type", si, {"keynames": mode, "returned": repr(r)})
                return
            if not judge_key(r, si, False):
                return
            # a burst the Input read in one go comes back as ONE paste event -- from the request that read it or,
            # when that one had something else to return, from the first later request that returns keys: a
            # plain keypress lying wholly inside such a burst means it is being handed out key by key
            inside = [(a, b_) for a, b_ in M.bursts if a <= pos0 and M.pos <= b_]
            if inside:
                _violate(res, "burst_not_reported_as_paste", si,
                         {"burst": list(inside[0]), "paste_threshold": thr, "returned": kind,
                          "key_at": [pos0, M.pos], "read_by_this_request": inside[0] not in bursts0})
                return
            M.bursts[:] = [(a, b_) for a, b_ in M.bursts if b_ > M.pos]
        if isinstance(r, (str, bytes, events.PasteEvent)):
            pass
        # ---- events --------------------------------------------------------------------
        elif isinstance(r, events.SigIntEvent):
            M.sigint_events += 1
            world.probe("interrupted_with_sigint_event")
            if M.sigint_events > M.sigints_sent:
                _violate(res, "more_sigint_events_than_signals", si, {"events": M.sigint_events, "signals": M.sigints_sent})
        elif isinstance(r, SEv):
            n = r.n
            if n in M.returned_serials:
                _violate(res, "event_returned_twice", si, {"serial": n})
            M.returned_serials.add(n)
            ent = [x for x in M.sched if x[1] == n]
            if not ent and M.event_serials.get(n, ("",))[0] == "decoy":
                _violate(res, "event_of_another_input_object_returned", si, {"serial": n, "kind": "sched"})
            elif not ent:
                _violate(res, "unknown_scheduled_event", si, {"serial": n})
            else:
                w = ent[0][0]
                M.sched.remove(ent[0])
                if not (w <= now):
                    _violate(res, "scheduled_event_before_its_time", si, {"when": w, "clock": now})
                earlier = [x for x in M.sched if x[0] < w]
                if earlier:
                    _violate(res, "scheduled_events_out_of_time_order", si, {"returned_when": w, "still_pending": earlier})
                # equal times: time order says nothing, "events from one trigger in trigger order" does (for
                # scheduled events that came from the same scheduled_event_trigger callback)
                same = [x for x in M.sched if x[0] == w and x[1] < n and sched_trig.get(x[1]) == sched_trig.get(n)]
                if same and not earlier:
                    _violate(res, "events_of_one_trigger_out_of_order", si,
                             {"serial": n, "when": w - world.t0, "triggered_earlier_for_the_same_time_and_still_pending": [x[1] for x in same],
                              "trigger": "scheduled_event_trigger"})
            if world.main_waited:
                world.probe("scheduled_woke_request")
        elif isinstance(r, Ev):
            n = r.n
            kindsrc = M.event_serials.get(n)
            if kindsrc is None:
                _violate(res, "unknown_event", si, {"serial": n})
            elif kindsrc[0] == "decoy":
                _violate(res, "event_of_another_input_object_returned", si, {"serial": n, "kind": kindsrc[1]})
            elif n in M.returned_serials:
                _violate(res, "event_returned_twice", si, {"serial": n, "kind": kindsrc[0]})
            else:
                M.returned_serials.add(n)
                key = kindsrc
                last = M.last_per_src.get(key, 0)
                if n < last:
                    _violate(res, "events_of_one_trigger_out_of_order", si, {"serial": n, "after": last, "trigger": list(key)})
                M.last_per_src[key] = n
                if n in M.q_events:
                    M.q_events.remove(n)
                if n in M.ts_completed:
                    M.ts_completed.remove(n)
                elif kindsrc[0] == "ts":
                    world.probe("callback_preempted_between_append_and_write")
                    world.fault("callback_split")
                if kindsrc[0] == "ts" and world.main_waited:
                    world.probe("threadsafe_event_woke_blocked_request")
        elif r is not None:
            _violate(res, "unexpected_return_value", si, {"returned": repr(r)})
        # ---- no needless blocking / time-outs -----------------------------------------------
        if r is None:
            # something that had become deliverable before the request's last wait began must have woken it
            woke = [n for n in M.ts_completed if M.ts_completed_seq.get(n, 1 << 60) < last_select_seq[0]]
            if woke and not deliv:
                _violate(res, "timed_out_while_threadsafe_event_deliverable", si,
                         {"serials": woke, "timeout": timeout, "waited": round(now - start, 9)})
            if len(s.tty.inq) and M.arrival_seq is not None and M.arrival_seq < last_select_seq[0] and not deliv \
                    and not cfg["split"] and world.probes.get("select_blocked", 0) > sel0:
                _violate(res, "timed_out_while_bytes_unread", si, {"unread": len(s.tty.inq), "timeout": timeout})
            if deliv:
                _violate(res, "returned_none_while_deliverable", si, {"deliverable": deliv, "timeout": timeout,
                                                                      "waited": round(now - start, 9)})
            elif timeout is None and not sched_pending and not M.sched:
                _violate(res, "none_from_request_without_timeout", si, {})
            elif timeout is not None and not sched_pending and not M.sched and now + 1e-6 < start + timeout:
                # (a microsecond of tolerance: time-out arithmetic on clock readings of different magnitude --
                # time.time() vs time.monotonic() -- rounds differently in the last bits)
                _violate(res, "none_before_timeout", si, {"timeout": timeout, "returned_after": round(now - start, 9),
                                                          "spurious_wakeups": world.probes.get("stale_wakeup_spurious", 0) - spur0})
            if timeout:
                world.probe("timeout_expired")
                world.fault("timeout_expiry")
        elif deliv and world.main_waited:
            _violate(res, "blocked_while_deliverable", si, {"deliverable": deliv, "timeout": timeout,
                                                            "waited": round(now - start, 9), "returned": kind})

    win_holder = []
    history_cut = [None]

    def do_cursor_query(si):
        from curtsies.window import CursorAwareWindow
        def hand_back(b):
            world.log.add("extra_bytes", b)
            on_tty_read(s.fd, b, False, False)     # these bytes left the tty queue in stream order ...
            inp.unget_bytes(b)                     # ... and enter the Input's buffer here
        ahead = len(s.tty.inq)
        world.log.add("cursor_query", si, ahead)
        in_window_query[0] = True
        try:
            if not win_holder:
                # "The context of the CursorAwareWindow object must be entered before calling any of its methods":
                # entered at its first use (which asks for the cursor position itself) and left when the run ends
                win = CursorAwareWindow(out_stream=s.out, in_stream=s.inp, extra_bytes_callback=hand_back)
                win.__enter__()
                win_holder.append(win)
                world.probe("window_entered_inside_input")
            pos = win_holder[0].get_cursor_position()
        except KeyboardInterrupt:
            world.log.add("cursor_query_torn", si)
            history_cut[0] = "cursor query torn by KeyboardInterrupt"
            return
        except (HarnessError, SimAbort, StepCap, Quiescent):
            raise
        except Exception as e:
            if environment_artefact(e):
                raise HarnessError("stub-environment artefact: %s: %s" % (type(e).__name__, e))
            # what the query returns or raises is C18's subject; here it only generates unget_bytes traffic.  A
            # query that failed may have left (part of) the terminal's report on the tty, where the Input would
            # find it as "typed" bytes nobody typed: the history ends here (every request so far was judged)
            world.log.add("cursor_query_raised", si, type(e).__name__)
            history_cut[0] = "cursor query raised %s" % type(e).__name__
            return
        finally:
            in_window_query[0] = False
        world.probe("cursor_query_with_typeahead" if ahead else "cursor_query")
        world.log.add("cursor_query_returned", si, list(pos) if isinstance(pos, tuple) else None)

    # spurious wake-up accounting: a trigger pipe read that finds no event
    orig_read = kernel.read
    req_spur = [0]

    def read_obs(fd, n):
        data = orig_read(fd, n)
        if fd in ts_rfds and world.current is world.watch:
            req_spur[0] += 1          # a trigger-pipe read by the app thread; judged spurious or not at return
        return data
    kernel.read = read_obs
    orig_select = kernel.select
    last_select_seq = [0]

    def select_obs(r, w, x, timeout=None):
        if world.current is world.watch:
            last_select_seq[0] = world.log.n
        return orig_select(r, w, x, timeout)
    kernel.select = select_obs

    def on_deadlock():
        # nothing can ever happen again.  It is the liveness violation when the application sits in a request
        # although something is deliverable to it; a thread stuck elsewhere (e.g. writing to a full pipe that
        # nobody reads) is a deadlock of the workload, which the property does not speak about
        if in_request[0] and world.watch.blocked_in in ("select", "read"):
            _violate(res, "request_blocked_forever_while_deliverable", -1,
                     {"tty_bytes": len(s.tty.inq), "threadsafe_events_completed": list(M.ts_completed),
                      "scheduled_pending": len(M.sched), "blocked_in": world.watch.blocked_in})
        else:
            raise HarnessError("the workload dead-locked outside a request (blocked in %r)" % world.watch.blocked_in)

    def app():
        if cfg.get("pre_typed"):
            data = bytes.fromhex(cfg["pre_typed"])       # typed before the application entered the context
            world.log.add("pre_typed", data)
            note_arrival(data)
            kernel.arrive(s.fd, data)
            world.probe("typed_before_enter")
        if world.current is world.main:
            sys.settrace(tracer)
        inp.__enter__()
        try:
            if decoy is not None:
                n1, n2 = M.new_serial("decoy", "event"), M.new_serial("decoy", "sched")
                decoy.event_trigger(Ev)(src="decoy", n=n1)
                SEv.next_serial[0] = n2
                decoy.scheduled_event_trigger(SEv)(world.t0 - 5.0)
                decoy.unget_bytes(b"dq")
                decoy_items.update(event=n1, sched=n2, data=b"dq")
                world.log.add("decoy_filled", n1, n2)
            ev_cb[0] = inp.event_trigger(Ev)
            ev_cb[1] = inp.event_trigger(Ev2)
            sched_cb[0] = inp.scheduled_event_trigger(SEv)
            sched_cb[1] = inp.scheduled_event_trigger(SEv2)
            def make_ts():
                fds0 = set(kernel.open_fds())
                cb = inp.threadsafe_event_trigger(Ev)
                new = [fd for fd in sorted(set(kernel.open_fds()) - fds0) if kernel.fds[fd].kind == "pr"]
                ts_rfds.append(new[0] if new else None)     # (None: this implementation did not open a pipe of its own)
                ts_cbs.append(cb)
            for k in range(cfg.get("nts_initial", cfg["nts"])):
                make_ts()
            for ti, steps in enumerate(p["threads"]):
                world.spawn("t%d" % ti, thread_script(ti, steps))
            aborted = False
            try:
                for si, st in enumerate(p["main"]):
                    res["nsteps"] += 1
                    op = st["op"]
                    if op == "send":
                        req_spur[0] = 0
                        do_send(si, st["timeout"], False, bool(st.get("via_next")) and st["timeout"] is None)
                    elif op == "arrive":
                        data = bytes.fromhex(st["data"])
                        if len(data) > 1000:
                            world.probe("multi_kb_burst")
                        if thr is None and len(data) > cfg["read_size"]:
                            world.probe("threshold_none_burst_gt_read_size")
                        world.log.add("arrive", data)
                        note_arrival(data)
                        if not len(s.tty.inq):
                            M.arrival_seq = world.log.n
                        kernel.arrive(s.fd, data)
                    elif op == "unget":
                        data = bytes.fromhex(st["data"])
                        if M.tty_read_total not in M.boundaries:
                            # the Input's buffer ends in the middle of a keypress whose rest is still unread on the
                            # stream: bytes "read from the stream by somebody else" cannot be whole new keys here
                            world.log.add("unget_skipped_mid_key")
                            continue
                        if len(s.tty.inq):
                            world.probe("unget_ahead_of_stream")
                        world.log.add("unget", data)
                        inp.unget_bytes(data)
                        off = len(M.entered)
                        for n in _key_lengths(data):
                            off += n
                            M.entered_bounds.add(off)
                        M.entered.extend(data)
                    elif op == "event":
                        call_event("main", st.get("trig", 0))
                    elif op == "sched":
                        when = world.t0 + st["at"]
                        n = M.new_serial("sched", "main")
                        if any(w == when for w, _n in M.sched):
                            world.probe("equal_when")
                        SEv.next_serial[0] = n
                        sched_trig[n] = st.get("trig", 0)
                        sched_cb[st.get("trig", 0)](when)
                        M.sched.append((when, n))
                        world.log.add("sched", when, n)
                    elif op == "mk_ts":
                        if len(ts_cbs) < cfg["nts"]:
                            make_ts()
                            world.probe("trigger_created_mid_run")
                    elif op == "ts_call" and st["trig"] >= len(ts_cbs):
                        world.log.add("ts_call_skipped_not_created", st["trig"])
                    elif op == "ts_call":
                        rfd = ts_rfds[st["trig"]]
                        if rfd is None:      # (this trigger shares somebody else's pipe: look at all of them)
                            known = [fd for fd in ts_rfds if fd in kernel.fds]
                            rfd = known[0] if known else None
                        pipe = kernel.fds[rfd].pipe if rfd in kernel.fds else None
                        if pipe is None or (pipe.cap >= 65536 and pipe.cap - len(pipe.buf) >= 1024):
                            call_ts(st["trig"], "main")
                        else:
                            # the app thread is the only reader: a blocking write to its own full pipe would be
                            # a self-deadlock of the workload, not something the property speaks about
                            world.log.add("ts_call_skipped_pipe_full", st["trig"])
                    elif op == "sleep":
                        world.block_until(lambda: False, world.now + st["dt"], "sleep")
                    elif op == "reenter":
                        # the application leaves the context and enters it again with the same object
                        inp.__exit__(None, None, None)
                        world.log.add("left_context")
                        world.block_until(lambda: False, world.now + 0.02, "sleep")
                        inp.__enter__()
                        world.probe("context_reentered")
                    elif op == "cursor_query":
                        if M.tty_read_total not in M.boundaries:
                            world.log.add("cursor_query_skipped_mid_key")
                            continue
                        if len(s.tty.inq) > 200:
                            # get_cursor_position re-runs a backtracking regex over everything read so far after
                            # every character: kilobytes of type-ahead cost minutes of CPU (a performance matter,
                            # not a property; noted in DESIGN.md 12.6) -- not exercised here
                            world.log.add("cursor_query_skipped_large_typeahead")
                            continue
                        do_cursor_query(si)
                        if history_cut[0]:
                            world.probe("history_cut_after_failed_cursor_query")
                            world.log.add("history_cut", history_cut[0])
                            break
                    if res["violation"]:
                        break
                while len(ts_cbs) < cfg["nts"]:
                    make_ts()          # (threads may be waiting for a trigger whose creation step was shrunk away)
                # ---- drain: everything that went in must come out --------------------------------
                rounds = 0
                while not res["violation"] and not history_cut[0]:
                    alive = any(t.state != "done" for t in world.threads[1:] if t is not world.watch)
                    pending = (M.q_events or M.ts_completed or M.sched or len(s.tty.inq) or M.pos < len(M.entered)
                               or world.env or alive)
                    if not pending:
                        break
                    rounds += 1
                    if rounds > 4000 + 4 * M.arrived_total:
                        # every single request of the drain was judged; running out of rounds is a budget matter
                        raise HarnessError("drain did not finish within its budget (queued %d, threadsafe %d, scheduled %d, "
                                           "tty %d, buffered %d)" % (len(M.q_events), len(M.ts_completed), len(M.sched),
                                                                     len(s.tty.inq), len(M.entered) - M.pos))
                    req_spur[0] = 0
                    if cfg["split"] and M.pos < len(M.entered) and not len(s.tty.inq) and not world.env and not alive \
                            and not (M.q_events or M.ts_completed or M.sched):
                        # only an incomplete tail is left (split arrival): nothing more can be demanded
                        world.log.add("drain_stops_with_incomplete_tail", len(M.entered) - M.pos)
                        break
                    pos_before, ret_before = M.pos, len(M.returned_serials)
                    now_deliv = M.q_events or M.ts_completed or len(s.tty.inq) or M.pos < len(M.entered)
                    if not now_deliv and not alive and (world.env or M.sched) and rounds % 4:
                        # nothing to fetch right now: the app does other work until the next thing is due
                        nxt = []
                        if world.env:
                            nxt.append(world.env[0][0])
                        if M.sched:
                            nxt.append(min(w for w, _n in M.sched) + 1e-6)
                        if min(nxt) > world.now:
                            world.block_until(lambda: False, min(nxt), "sleep")
                    do_send(-1 - rounds, 0.05 if (alive or world.env or M.sched) else 0, True)
                    if M.pos == pos_before and len(M.returned_serials) == ret_before and not res["violation"]:
                        # nothing came out: the app does something else for a moment (a clock that stands
                        # exactly on a scheduled event's time would otherwise never pass it)
                        world.block_until(lambda: False, world.now + 0.01, "sleep")
                if not res["violation"] and not history_cut[0]:
                    do_send(-9998, 0)
                    do_send(-9999, 0)
            except Quiescent:
                on_deadlock()
                aborted = True
            except StepCap:
                # the step budget is a property of the harness: hitting it is not a verdict on the library
                raise HarnessError("step cap exceeded after %d yield points" % world.yields)
            # ---- end of history ----------------------------------------------------------------
            if not res["violation"] and not aborted and not history_cut[0]:
                for t in world.threads[1:]:
                    if t is world.watch:
                        continue
                    if isinstance(t.exc, HarnessError):
                        raise t.exc
                    if t.exc is not None:
                        _violate(res, "trigger_thread_raised", -1, {"thread": t.name, "exception": repr(t.exc)})
                missing = [n for n, (k, src) in M.event_serials.items()
                           if n not in M.returned_serials and (k != "ts" or n in M.ts_started) and k != "decoy"]
                if missing:
                    _violate(res, "event_never_returned", -1, {"serials": missing[:10],
                                                               "kinds": [M.event_serials[n][0] for n in missing[:10]]})
                if M.pos != len(M.entered) and not cfg["split"]:
                    _violate(res, "bytes_never_returned", -1, {"returned_to": M.pos, "entered": len(M.entered)})
                if len(s.tty.inq):
                    _violate(res, "bytes_left_unread", -1, {"unread": len(s.tty.inq)})
                if decoy is not None and not res["violation"]:
                    got_ev, got_keys = [], []
                    for _ in range(8):
                        x = decoy.send(0)
                        if x is None:
                            break
                        if isinstance(x, (str, bytes)):
                            got_keys.append(x)
                        else:
                            got_ev.append(getattr(x, "n", None))
                    data = b"".join(k if isinstance(k, bytes) else (k.encode("utf-8") if len(k) == 1 else b"?") for k in got_keys)
                    if sorted(got_ev, key=str) != sorted([decoy_items["event"], decoy_items["sched"]], key=str) \
                            or data != decoy_items["data"]:
                        _violate(res, "other_input_object_lost_its_items", -1,
                                 {"put_in": {"event": decoy_items["event"], "scheduled": decoy_items["sched"], "bytes": "dq"},
                                  "came_out": {"events": got_ev, "keys": [repr(k) for k in got_keys]}})
                if M.tty_read_total != M.arrived_total and not res["violation"]:
                    # (e.g. type-ahead discarded by a TCSAFLUSH when the context was entered)
                    _violate(res, "bytes_arrived_but_never_read", -1,
                             {"arrived": M.arrived_total, "read": M.tty_read_total})
        finally:
            if world.current is world.main:
                sys.settrace(None)
            kernel.read = orig_read
            kernel.select = orig_select
            try:
                if win_holder:
                    in_window_query[0] = True
                    try:
                        win_holder[0].__exit__(None, None, None)
                    except (Quiescent, StepCap, SimAbort, HarnessError):
                        raise
                    except Exception as e:
                        world.log.add("window_exit_raised", type(e).__name__)
                inp.__exit__(None, None, None)
            except (Quiescent, StepCap, SimAbort):
                pass

    if cfg.get("app_main", True):
        app()
    else:
        # the application lives on a thread that is not the main thread (no signal wake-up pipe there); the
        # simulated main thread only waits for it
        world.probe("app_on_non_main_thread")
        outcome = []

        def run_app():
            try:
                app()
            except (HarnessError, StepCap) as e:
                outcome.append(e)
        t = world.spawn("app", run_app)
        world.watch = t
        try:
            world.join_all()
        except Quiescent:
            on_deadlock()
        except StepCap:
            raise HarnessError("step cap exceeded after %d yield points" % world.yields)
        if outcome:
            raise outcome[0] if isinstance(outcome[0], HarnessError) else HarnessError("step cap exceeded")
        if t.exc is not None and not res["violation"]:
            raise HarnessError("application thread ended with %r" % (t.exc,))
