"""C02 -- FullscreenWindow: after every render the screen equals the array.

Render/resize histories of a real FullscreenWindow against the reference terminal
model; the oracle is computed from the plan, never from curtsies.  DESIGN.md 4.
"""

import random
import signal as _signal

from sim import seams, gen, plan as planmod
from sim.world import World, environment_artefact, HarnessError, StepCap, Quiescent
from sim.kernel import Kernel, SimOut
from sim.term import TermModel

PROP = "C02"
LEVEL = "exploration"
COUNTS = {"quick": 60000, "thorough": 3000000}
MAX_SECONDS = {"quick": 100, "thorough": 1500}
DET_EVERY = {"quick": 40, "thorough": 400}
SHRINK_BUDGET = 600
LIST_KEYS = ("steps",)

RULE = ("one evaluation = one seeded history (1..40 quick / 1..120 thorough steps) of render_to_terminal calls "
        "and terminal resizes executed on a real FullscreenWindow wired to the reference terminal model; "
        "after every judged render the model's active grid, cursor, buffer and scroll counter are compared with "
        "the grid computed from the plan. distinct = distinct SHA-1 of the full event log (every byte written, "
        "every resize, every oracle observation); non-trivial = at least one fault (resize, resize_mid_render) fired "
        "or one rare-condition probe (cache hit, formatting-only change, full-width row, shrink, over-size) was hit")
STATE_DEF = "(h, w, rows-vs-h class, any row==w, any row>w, previous-vs-current relation per render, after-resize flag)"
COMPONENTS = {
    "real": ["curtsies.window.FullscreenWindow / BaseWindow", "curtsies.formatstring (FmtStr, Chunk, fmtstr)",
             "curtsies.formatstringarray.FSArray", "blessed.Terminal (capability strings, move, fullscreen, location)"],
    "stub": ["terminal emulator: sim.term.TermModel (xterm semantics)", "out_stream: sim.kernel.SimOut",
             "blessed.Terminal._height_and_width -> simulated size"],
}
ASSUMPTIONS = [
    "TermModel implements xterm semantics for the sequences curtsies emits (pending wrap, EL in pending wrap, CUP clamping, BCE, ?1049)",
    "rows contain only single-column printable characters (the property's quantifier)",
    "a render during which the terminal is resized is not judged; the next render is",
    "resizes are to a size different from the one last rendered at (the property's quantifier)",
]
PROBES = ["cache_hit_row", "fmt_only_change", "full_width_row", "shorter_after_longer", "fewer_rows_after_more",
          "render_after_resize", "render_onto_junk", "mid_render_resize", "over_wide_row", "over_tall_array",
          "hide_cursor_false", "fsarray", "empty_array", "identical_rerender", "el_in_pending_wrap",
          "same_object_rendered_again"]
TRIGGERS = {}


def _size(rng, tier):
    if rng.random() < 0.02:
        return rng.randint(9, 30), rng.randint(13, 100)      # now and then a terminal of realistic size
    if rng.random() < 0.15:
        return rng.randint(1, 3), rng.randint(1, 4)
    return rng.randint(1, 8), rng.randint(1, 12)


def _gen_render(rng, h, w, prev, oversize, prev2=None):
    """prev: previous judged rows (list of row specs) or None; prev2: the frame before that"""
    r = rng.random()
    rows = None
    if prev2 is not None and r > 0.93:
        rows = [planmod.clone(x) for x in prev2]          # A, B, A: the frame before the last one comes back
        r = 1.0
    if prev is not None and r < 0.55:
        rows = [planmod.clone(x) for x in prev]
        k = rng.random()
        if k < 0.10:
            pass                                             # identical again
        elif k < 0.40 and rows:
            i = rng.randrange(len(rows))                     # one row: formatting only
            rows[i] = gen.refmt_row(rng, rows[i])
        elif k < 0.55 and rows:
            i = rng.randrange(len(rows))                     # one row shorter
            n = gen.row_len(rows[i])
            rows[i] = gen.gen_row(rng, rng.randint(0, max(0, n - 1)))
        elif k < 0.70 and rows:
            del rows[rng.randrange(len(rows)):]              # fewer rows
        elif k < 0.80:
            rows.append(gen.gen_row(rng, rng.randint(0, w)))  # one more row
        elif k < 0.90 and rows:
            i = rng.randrange(len(rows))                     # one row replaced
            rows[i] = gen.gen_row(rng, rng.randint(0, w))
        else:
            rng.shuffle(rows)
    if rows is None:
        maxh = h + 3 if oversize else h
        nrows = rng.choice((0, 1, h, h, rng.randint(0, maxh), rng.randint(0, maxh)))
        if oversize and rng.random() < 0.2:
            nrows = h + rng.randint(1, 3)
        rows = []
        for _ in range(nrows):
            k = rng.random()
            if k < 0.25:
                n = w
            elif oversize and k < 0.35:
                n = w + rng.randint(1, 3)
            else:
                n = rng.randint(0, w)
            rows.append(gen.gen_row(rng, n))
    if not oversize:
        rows = rows[:h]
        rows = [x if gen.row_len(x) <= w else gen.gen_row(rng, w) for x in rows]
    cursor = [rng.randrange(h), rng.randrange(w)]
    if rng.random() < 0.2:
        cursor = [h - 1, w - 1]
    return {"op": "render", "rows": rows, "cursor": cursor, "fsarray": rng.random() < 0.3,
            "fs_width": rng.choice((w, w, max(1, w - 2), w + 1, w + 5)),      # an FSArray's own width need not be the terminal's
            "reuse_object": rng.random() < 0.3}


def gen_plan(seed, tier, index=0, avoid=()):
    rng = random.Random(seed)
    h, w = _size(rng, tier)
    oversize = "oversize" not in avoid and rng.random() < 0.5
    faults = {"resize": rng.random() < 0.6, "mid": rng.random() < 0.25}
    maxsteps = 40 if tier == "quick" else 120
    nsteps = rng.choice((1, 2, 3, 4, 6, 8, 12, rng.randint(1, maxsteps)))
    cfg = {"h": h, "w": w, "hide_cursor": rng.random() < 0.7, "onlcr": rng.random() < 0.5,
           "out_buffer": rng.choice(("none", "line", "block", "block"))}
    steps = []
    prev = None
    prev2 = None
    last_rendered = None
    cur = (h, w)
    for _ in range(nsteps):
        if faults["resize"] and (last_rendered is not None or rng.random() < 0.3) and rng.random() < 0.2:
            for _t in range(20):
                nh, nw = _size(rng, tier)
                if (nh, nw) != last_rendered:
                    break
            else:
                continue
            steps.append({"op": "resize", "h": nh, "w": nw, "junk": rng.getrandbits(32),
                          "cursor": [rng.randrange(nh), rng.randrange(nw)]})
            cur = (nh, nw)
            prev = None if rng.random() < 0.5 else prev
            continue
        st = _gen_render(rng, cur[0], cur[1], prev, oversize, prev2)
        if prev is not None and (len(prev) > cur[0] or any(gen.row_len(x) > cur[1] for x in prev)) and not oversize:
            st = _gen_render(rng, cur[0], cur[1], None, oversize)
        last_rendered = cur
        if faults["mid"] and rng.random() < 0.08:
            for _t in range(20):
                nh, nw = _size(rng, tier)
                if (nh, nw) != last_rendered:
                    break
            else:
                nh, nw = cur[0] + 1, cur[1]
            st["mid"] = {"at_write": rng.choice((rng.randint(1, 12), rng.randint(1, 40))), "h": nh, "w": nw, "junk": rng.getrandbits(32),
                         "cursor": [rng.randrange(nh), rng.randrange(nw)]}
            cur = (nh, nw)
            prev = None
        else:
            prev2 = prev
            prev = st["rows"]
        steps.append(st)
    return {"prop": PROP, "seed": seed, "cfg": cfg, "steps": steps}


def valid(p):
    """shrink candidates must stay inside the quantifier: every resize goes to a size
    different from the one last rendered at; cursor on the screen"""
    h, w = p["cfg"]["h"], p["cfg"]["w"]
    if h < 1 or w < 1:
        return False
    cur = (h, w)
    last = None
    pending_resize = False
    for st in p["steps"]:
        if st["op"] == "resize":
            if st["h"] < 1 or st["w"] < 1:
                return False
            if not (0 <= st["cursor"][0] < st["h"] and 0 <= st["cursor"][1] < st["w"]):
                return False
            cur = (st["h"], st["w"])
            pending_resize = True
        else:
            if pending_resize and cur == last:
                return False
            pending_resize = False
            if not (0 <= st["cursor"][0] < cur[0] and 0 <= st["cursor"][1] < cur[1]):
                return False
            last = cur
            m = st.get("mid")
            if m:
                if (m["h"], m["w"]) == last or m["h"] < 1 or m["w"] < 1:
                    return False
                if not (0 <= m["cursor"][0] < m["h"] and 0 <= m["cursor"][1] < m["w"]):
                    return False
                cur = (m["h"], m["w"])
                pending_resize = True
    return True


def _simp_rows(p):
    for i, st in enumerate(p["steps"]):
        if st["op"] != "render":
            continue
        if st.get("mid"):
            q = planmod.clone(p)
            del q["steps"][i]["mid"]
            yield q
        if st.get("fsarray"):
            q = planmod.clone(p)
            q["steps"][i]["fsarray"] = False
            yield q
        if st.get("reuse_object"):
            q = planmod.clone(p)
            q["steps"][i]["reuse_object"] = False
            yield q
        if st["cursor"] != [0, 0]:
            q = planmod.clone(p)
            q["steps"][i]["cursor"] = [0, 0]
            yield q
        for j in range(len(st["rows"]) - 1, -1, -1):
            q = planmod.clone(p)
            del q["steps"][i]["rows"][j]
            yield q
        for j, row in enumerate(st["rows"]):
            for cand in gen.simplify_row(row):
                q = planmod.clone(p)
                q["steps"][i]["rows"][j] = cand
                yield q
            n = gen.row_len(row)
            if n > 0:
                text = gen.row_text(row)
                q = planmod.clone(p)
                q["steps"][i]["rows"][j] = {"t": "str", "s": text[:-1]}
                yield q


def _simp_cfg(p):
    c = p["cfg"]
    for k in ("h", "w"):
        if c[k] > 1:
            q = planmod.clone(p)
            q["cfg"][k] = c[k] - 1
            yield q
    if not c["hide_cursor"]:
        q = planmod.clone(p)
        q["cfg"]["hide_cursor"] = True
        yield q
    if c["onlcr"]:
        q = planmod.clone(p)
        q["cfg"]["onlcr"] = False
        yield q
    if c.get("out_buffer", "none") != "none":
        q = planmod.clone(p)
        q["cfg"]["out_buffer"] = "none"
        yield q
    for i, st in enumerate(p["steps"]):
        if st["op"] == "resize":
            for k in ("h", "w"):
                if st[k] > 1:
                    q = planmod.clone(p)
                    q["steps"][i][k] = st[k] - 1
                    q["steps"][i]["cursor"] = [0, 0]
                    yield q


SIMPLIFIERS = (_simp_cfg, _simp_rows)


def run_plan(p, keep_log=False):
    cfg = p["cfg"]
    world = World({"yield_cap": 2000000}, None, keep_log)
    kernel = Kernel(world)
    term = TermModel(cfg["h"], cfg["w"], onlcr=cfg["onlcr"])
    world.term = term
    out = SimOut(world, term, cfg.get("out_buffer", "none"))
    seams.bind(world, kernel)
    res = {"violation": None, "error": None, "probes": world.probes, "faults": world.faults,
           "states": set(), "nsteps": 0}
    try:
        _execute(p, world, term, out, res)
    except HarnessError as e:
        res["error"] = "harness: %s" % e
    except (StepCap, Quiescent) as e:
        res["error"] = "unexpected %s in a single-threaded C02 run" % type(e).__name__
    finally:
        try:
            import gc
            gc.collect()          # (finalizers of this run's objects run in this run's world, see sim/setup.py)
        finally:
            seams.unbind()
    if term.unknown and not res["error"]:
        res["error"] = "UNMODELLED terminal sequence(s): %r" % term.unknown[:3]
    res["digest"] = world.log.digest()
    res["sim_s"] = world.now - world.t0
    res["nontrivial"] = bool(world.faults) or any(world.probes.get(k) for k in (
        "cache_hit_row", "fmt_only_change", "full_width_row", "shorter_after_longer",
        "fewer_rows_after_more", "over_wide_row", "over_tall_array"))
    if keep_log:
        res["log"] = world.log.entries
    return res


def _violate(res, name, step, detail):
    if res["violation"] is None:
        res["violation"] = {"invariant": name, "step": step, "detail": detail}


def _execute(p, world, term, out, res):
    from curtsies.window import FullscreenWindow
    cfg = p["cfg"]
    # something on the main screen first, so that leaving/entering is observable
    term.feed("main-screen\r\n")
    win = FullscreenWindow(out_stream=out, hide_cursor=cfg["hide_cursor"])
    if not cfg["hide_cursor"]:
        world.probe("hide_cursor_false")
    prev = None
    after_resize = False
    last_arr = None
    with win:
        alt_scrolls0 = term.scrolls["alt"]
        for si, st in enumerate(p["steps"]):
            res["nsteps"] += 1
            if st["op"] == "resize":
                term.resize(st["h"], st["w"], random.Random(st["junk"]), tuple(st["cursor"]))
                seams._K.sig.post(_signal.SIGWINCH)      # a tty tells its foreground process about every size change
                seams._K.sig.deliver_pending(False)      # (the handler, if any, runs before the next render begins)
                world.log.add("resize", st["h"], st["w"], st["junk"])
                world.fault("resize")
                after_resize = True
                continue
            h, w = term.h, term.w
            rows = st["rows"]
            arr = gen.build_array(rows, st.get("fsarray"), st.get("fs_width", w), last_arr if st.get("reuse_object") else None)
            if arr is last_arr:
                world.probe("same_object_rendered_again")
            last_arr = arr
            if st.get("fsarray"):
                world.probe("fsarray")
            mid = st.get("mid")
            fired = [False]
            if mid:
                base = out.nwrites

                def on_write(n, mid=mid, base=base):
                    if not fired[0] and n - base == mid["at_write"]:
                        fired[0] = True
                        term.resize(mid["h"], mid["w"], random.Random(mid["junk"]), tuple(mid["cursor"]))
                        seams._K.sig.post(_signal.SIGWINCH)
                        seams._K.sig.deliver_pending(False)
                        world.log.add("resize_mid", mid["h"], mid["w"], mid["junk"])
                        world.fault("resize_mid_render")
                out.on_write = on_write
            el0 = term.el_in_pending
            try:
                ret = win.render_to_terminal(arr, tuple(st["cursor"]))
            except HarnessError:
                raise
            except Exception as e:
                if environment_artefact(e):
                    raise HarnessError("stub-environment artefact: %s: %s" % (type(e).__name__, e))
                _violate(res, "render_raised", si, {"exception": "%s: %s" % (type(e).__name__, e)})
                return
            finally:
                out.on_write = None
            _probes(world, rows, prev, h, w, after_resize, term.el_in_pending - el0)
            res["states"].add(_abstract(rows, prev, h, w, after_resize))
            if mid and fired[0]:
                world.probe("mid_render_resize")
                alt_scrolls0 = term.scrolls["alt"]   # the in-flight render is not judged
                prev = None
                after_resize = True
                continue
            after_resize = False
            # ---- the oracle -------------------------------------------------------------
            exp = gen.expected_grid(rows, h, w)
            got = term.snapshot_screen()          # (of the active buffer, whichever it is: which buffer is C12's subject)
            world.log.add("oracle", si, term.r, term.c, term.pending, term.active, term.scrolls["alt"])
            if term.scrolls["alt"] != alt_scrolls0:
                _violate(res, "screen_scrolled", si, {"scrolled_lines": term.scrolls["alt"] - alt_scrolls0,
                                                       "rows": len(rows), "h": h, "w": w,
                                                       "row_lens": [gen.row_len(x) for x in rows]})
                alt_scrolls0 = term.scrolls["alt"]
            d = gen.diff_grid(exp, got)
            if d is not None:
                d.update({"h": h, "w": w, "expected_screen": gen.show_grid(exp), "got_screen": gen.show_grid(got)})
                _violate(res, "screen_differs", si, d)
            if (term.r, term.c) != tuple(st["cursor"]):
                _violate(res, "cursor_position", si, {"expected": st["cursor"], "got": [term.r, term.c],
                                                       "pending_wrap": term.pending})
            if res["violation"]:
                return
            prev = rows
            if mid and not fired[0]:
                # the render finished before the planned write ordinal: the resize lands right after it
                term.resize(mid["h"], mid["w"], random.Random(mid["junk"]), tuple(mid["cursor"]))
                seams._K.sig.post(_signal.SIGWINCH)
                seams._K.sig.deliver_pending(False)
                world.log.add("resize_late", mid["h"], mid["w"], mid["junk"])
                world.fault("resize")
                after_resize = True
    world.log.add("exit", term.active, term.cursor_visible)


def _probes(world, rows, prev, h, w, after_resize, el_pending):
    if not rows:
        world.probe("empty_array")
    if len(rows) > h:
        world.probe("over_tall_array")
    lens = [gen.row_len(x) for x in rows]
    if any(n > w for n in lens):
        world.probe("over_wide_row")
    if any(n == w for n in lens):
        world.probe("full_width_row")
    if el_pending:
        world.probe("el_in_pending_wrap")
    if after_resize:
        world.probe("render_after_resize")
        world.probe("render_onto_junk")
    if prev is not None and not after_resize:
        if len(rows) < len(prev):
            world.probe("fewer_rows_after_more")
        same = 0
        for a, b in zip(rows, prev):
            ca, cb = gen.row_cells(a), gen.row_cells(b)
            if ca == cb:
                same += 1
            elif gen.row_text(a) == gen.row_text(b):
                world.probe("fmt_only_change")
            if len(ca) < len(cb):
                world.probe("shorter_after_longer")
        if same:
            world.probe("cache_hit_row", same)
        if same == len(rows) == len(prev):
            world.probe("identical_rerender")


def _abstract(rows, prev, h, w, after_resize):
    lens = [gen.row_len(x) for x in rows]
    rel = []
    if prev is not None and not after_resize:
        for i in range(max(len(rows), len(prev))):
            if i >= len(rows):
                rel.append("gone")
            elif i >= len(prev):
                rel.append("new")
            else:
                ca, cb = gen.row_cells(rows[i]), gen.row_cells(prev[i])
                if ca == cb:
                    rel.append("same")
                elif gen.row_text(rows[i]) == gen.row_text(prev[i]):
                    rel.append("fmt")
                elif len(ca) < len(cb):
                    rel.append("shorter")
                else:
                    rel.append("diff")
    return "%d,%d|%s|%d%d|%s|%d" % (h, w, "<" if len(rows) < h else "=" if len(rows) == h else ">",
                                   any(n == w for n in lens), any(n > w for n in lens),
                                   ",".join(rel), after_resize)
