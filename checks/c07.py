"""C07 -- CursorAwareWindow keeps history intact and accounts for every scroll.

Render histories of a real CursorAwareWindow on a simulated tty whose far end is
the reference terminal model with scrollback and DSR replies.  DESIGN.md 5.
"""

import random

from sim import gen, setup, plan as planmod
from sim.term import BLANK
from sim.world import environment_artefact, HarnessError, StepCap, Quiescent

PROP = "C07"
LEVEL = "exploration"
COUNTS = {"quick": 60000, "thorough": 3000000}
MAX_SECONDS = {"quick": 100, "thorough": 1500}
DET_EVERY = {"quick": 40, "thorough": 400}
SHRINK_BUDGET = 600
LIST_KEYS = ("steps", "cfg.pre")

RULE = ("one evaluation = one seeded history: an initial main screen with 0..h+4 pre-existing unique, partly formatted "
        "lines (part of them already in scrollback), the cursor on any row, then 1..30 (quick) / 1..100 (thorough) "
        "render_to_terminal calls with arrays of height 0..h+4 on a real CursorAwareWindow, then leaving the context; "
        "after every render document (scrollback ++ screen), cursor, scroll counter and return value are compared with "
        "a reference model computed from the plan. distinct = distinct SHA-1 of the full event log; non-trivial = the "
        "history scrolled, pushed array rows off the top, or hit a cache/pending-wrap probe")
STATE_DEF = "(h, top usable row T, n vs fit, lines scrolled k, rows pushed off, scrollback empty?, cursor row class, keep_last_line)"
COMPONENTS = {
    "real": ["curtsies.window.CursorAwareWindow / BaseWindow (render_to_terminal, scroll_down, get_cursor_position, __enter__/__exit__)",
             "curtsies.termhelpers.Cbreak", "curtsies.formatstring / formatstringarray", "blessed.Terminal", "tty.cfmakecbreak"],
    "stub": ["terminal emulator with scrollback and DSR: sim.term.TermModel", "kernel tty + termios: sim.kernel",
             "in_stream/out_stream: SimIn/SimOut", "blessed.Terminal._height_and_width"],
}
ASSUMPTIONS = [
    "TermModel implements xterm semantics (LF on the bottom row scrolls into scrollback, DECSC/DECRC keep pending wrap, CUP clamps)",
    "no fault kinds are injected for C07: the simulator contributes the terminal with scrollback, DSR and scroll semantics (DESIGN.md 5)",
    "rows are 0..width single-column characters; cursor_pos is on an array cell (row < len(array) or (0, c) for an empty array)",
    "the DSR reply arrives immediately and nothing else is typed (input noise is C18's subject)",
]
PROBES = ["scrolled", "top_reached_zero", "rows_pushed_off", "full_width_bottom_before_scroll", "initial_scrollback",
          "content_below_cursor_at_entry", "exit_keep_last_line_on_bottom", "cache_hit_after_scroll", "empty_array",
          "hide_cursor_false", "fsarray", "cursor_row_pushed_off", "render_after_scrolled_render", "h1",
          "same_object_rendered_again"]
TRIGGERS = {}

LABELS = "ABCDEFGHIJKLMNOPQRSTUVWXYZ"


def gen_plan(seed, tier, index=0, avoid=()):
    rng = random.Random(seed)
    if rng.random() < 0.02:
        h, w = rng.randint(8, 30), rng.randint(11, 100)      # now and then a terminal of realistic size
    elif rng.random() < 0.2:
        h, w = rng.randint(1, 3), rng.randint(1, 4)
    else:
        h, w = rng.randint(1, 7), rng.randint(1, 10)
    npre = rng.choice((0, 1, rng.randint(0, h), rng.randint(0, h + 4), h + rng.randint(0, 4)))
    pre = []
    for i in range(npre):
        n = rng.randint(1, w)
        text = (LABELS[i % 26] + gen.gen_text(rng, w, 0.1))[:n]
        pre.append([text, gen.gen_atts(rng, 0.6)])
    cfg = {"h": h, "w": w, "keep_last_line": rng.random() < 0.5, "hide_cursor": rng.random() < 0.7,
           "onlcr": rng.random() < 0.7, "pre": pre, "final_newline": rng.random() < 0.7,
           "cursor_up": rng.choice((0, 0, 0, rng.randint(0, h))),
           "out_buffer": rng.choice(("none", "line", "block", "block"))}
    maxsteps = 30 if tier == "quick" else 100
    nsteps = rng.choice((1, 2, 3, 4, 6, 8, rng.randint(1, maxsteps)))
    steps = []
    prev = None
    big = rng.random() < 0.6
    for _ in range(nsteps):
        r = rng.random()
        if prev is not None and r < 0.5:
            rows = [planmod.clone(x) for x in prev]
            k = rng.random()
            if k < 0.15:
                pass
            elif k < 0.4:
                rows.append(gen.gen_row(rng, rng.randint(0, w)))           # grows by one line (typing a newline)
            elif k < 0.55 and rows:
                i = rng.randrange(len(rows))
                rows[i] = gen.refmt_row(rng, rows[i])
            elif k < 0.7 and rows:
                i = rng.randrange(len(rows))
                rows[i] = gen.gen_row(rng, rng.randint(0, w))
            elif k < 0.85 and rows:
                del rows[rng.randrange(len(rows)):]
            else:
                for _j in range(rng.randint(1, 3)):
                    rows.append(gen.gen_row(rng, rng.choice((w, rng.randint(0, w)))))
        else:
            maxn = h + 4 if big else h
            n = rng.choice((0, 1, h, rng.randint(0, maxn), rng.randint(0, maxn)))
            rows = [gen.gen_row(rng, rng.choice((w, rng.randint(0, w), rng.randint(0, w)))) for _ in range(n)]
        if rows:
            cr = rng.choice((len(rows) - 1, rng.randrange(len(rows))))
        else:
            cr = 0
        cursor = [cr, rng.randrange(w)]
        steps.append({"op": "render", "rows": rows, "cursor": cursor, "fsarray": rng.random() < 0.3,
                      "fs_width": rng.choice((w, w, max(1, w - 2), w + 1, w + 5)),
                      "reuse_object": rng.random() < 0.3})
        prev = rows
    return {"prop": PROP, "seed": seed, "cfg": cfg, "steps": steps}


def valid(p):
    c = p["cfg"]
    if c["h"] < 1 or c["w"] < 1:
        return False
    for t, a in c["pre"]:
        if not (1 <= len(t) <= c["w"]):
            return False
    firsts = [t[0] for t, a in c["pre"]]
    for st in p["steps"]:
        rows = st["rows"]
        if any(gen.row_len(r) > c["w"] for r in rows):
            return False
        cr, cc = st["cursor"]
        if not (0 <= cc < c["w"]):
            return False
        if rows:
            if not (0 <= cr < len(rows)):
                return False
        elif cr != 0:
            return False
    return True


def _simp(p):
    c = p["cfg"]
    for k in ("keep_last_line", "onlcr"):
        if c[k]:
            q = planmod.clone(p)
            q["cfg"][k] = False
            yield q
    if not c["hide_cursor"]:
        q = planmod.clone(p)
        q["cfg"]["hide_cursor"] = True
        yield q
    if c["cursor_up"]:
        q = planmod.clone(p)
        q["cfg"]["cursor_up"] = c["cursor_up"] - 1
        yield q
    for k in ("h", "w"):
        if c[k] > 1:
            q = planmod.clone(p)
            q["cfg"][k] = c[k] - 1
            yield q
    for i, (t, a) in enumerate(c["pre"]):
        if a:
            q = planmod.clone(p)
            q["cfg"]["pre"][i][1] = {}
            yield q
        if len(t) > 1:
            q = planmod.clone(p)
            q["cfg"]["pre"][i][0] = t[:1]
            yield q
    for i, st in enumerate(p["steps"]):
        if st.get("fsarray"):
            q = planmod.clone(p)
            q["steps"][i]["fsarray"] = False
            yield q
        if st.get("reuse_object"):
            q = planmod.clone(p)
            q["steps"][i]["reuse_object"] = False
            yield q
        for j in range(len(st["rows"]) - 1, -1, -1):
            q = planmod.clone(p)
            del q["steps"][i]["rows"][j]
            n = len(q["steps"][i]["rows"])
            q["steps"][i]["cursor"][0] = min(q["steps"][i]["cursor"][0], max(0, n - 1))
            yield q
        if st["cursor"][1]:
            q = planmod.clone(p)
            q["steps"][i]["cursor"][1] = 0
            yield q
        for j, row in enumerate(st["rows"]):
            for cand in gen.simplify_row(row):
                q = planmod.clone(p)
                q["steps"][i]["rows"][j] = cand
                yield q
            if gen.row_len(row) > 0:
                q = planmod.clone(p)
                q["steps"][i]["rows"][j] = {"t": "str", "s": gen.row_text(row)[:-1]}
                yield q


SIMPLIFIERS = (_simp,)


def run_plan(p, keep_log=False):
    cfg = p["cfg"]
    s = setup.make({"h": cfg["h"], "w": cfg["w"], "onlcr": cfg["onlcr"], "yield_cap": 2000000,
                    "out_buffer": cfg.get("out_buffer", "none")}, None, keep_log)
    world, term = s.world, s.term
    res = {"violation": None, "error": None, "probes": world.probes, "faults": world.faults,
           "states": set(), "nsteps": 0}
    try:
        _execute(p, s, res)
    except HarnessError as e:
        res["error"] = "harness: %s" % e
    except (StepCap, Quiescent) as e:
        res["error"] = "unexpected %s in a single-threaded C07 run" % type(e).__name__
    finally:
        setup.finish(s)
    if term.unknown and not res["error"]:
        res["error"] = "UNMODELLED terminal sequence(s): %r" % term.unknown[:3]
    res["digest"] = world.log.digest()
    res["sim_s"] = world.now - world.t0
    res["nontrivial"] = any(world.probes.get(k) for k in (
        "scrolled", "rows_pushed_off", "cache_hit_after_scroll", "full_width_bottom_before_scroll",
        "top_reached_zero", "exit_keep_last_line_on_bottom"))
    if keep_log:
        res["log"] = world.log.entries
    return res


def _violate(res, name, step, detail):
    if res["violation"] is None:
        res["violation"] = {"invariant": name, "step": step, "detail": detail}


def _sgr(atts):
    cell = gen.cell_for("x", atts)
    codes = []
    if cell[1] is not None:
        codes.append(str(cell[1]))
    if cell[2] is not None:
        codes.append(str(cell[2]))
    for code, bit in ((1, 1), (2, 2), (3, 4), (4, 8), (5, 16), (7, 32)):
        if cell[3] & bit:
            codes.append(str(code))
    return "\x1b[%sm" % ";".join(codes) if codes else ""


def _pad(cells, w):
    cells = list(cells)[:w]
    return tuple(cells + [BLANK] * (w - len(cells)))


def _execute(p, s, res):
    from curtsies.window import CursorAwareWindow
    cfg = p["cfg"]
    world, term = s.world, s.term
    h, w = cfg["h"], cfg["w"]
    # ---- the pre-existing output of earlier programs ------------------------------------
    pre = cfg["pre"]
    for i, (text, atts) in enumerate(pre):
        term.feed(_sgr(atts) + text + "\x1b[0m")
        if i < len(pre) - 1 or cfg["final_newline"]:
            term.feed("\r\n")
    if cfg["cursor_up"]:
        term.feed("\x1b[%dA" % cfg["cursor_up"])
    if term.scrollback:
        world.probe("initial_scrollback")
    if h == 1:
        world.probe("h1")
    if any(c != BLANK for row in term.bufs["main"][term.r:] for c in row):
        world.probe("content_below_cursor_at_entry")
    sb0 = len(term.scrollback)
    T = term.r
    A = term.document()[:sb0 + T]
    world.log.add("initial", sb0, T, term.c, term.pending)

    win = CursorAwareWindow(out_stream=s.out, in_stream=s.inp, keep_last_line=cfg["keep_last_line"],
                            hide_cursor=cfg["hide_cursor"])
    if not cfg["hide_cursor"]:
        world.probe("hide_cursor_false")
    prev_scrolled = False
    last_arr = None
    shown = []          # rows currently displayed from the window's top row down
    try:
        win.__enter__()
    except HarnessError:
        raise
    except Quiescent:
        # the window waits for the terminal's answer to a query that never reached the terminal
        _violate(res, "enter_blocked_forever", -1, {"unflushed_output": "".join(s.out.pending_out)[:40],
                                                    "out_buffer": cfg.get("out_buffer", "none")})
        return
    except Exception as e:
        if environment_artefact(e):
            raise HarnessError("stub-environment artefact: %s: %s" % (type(e).__name__, e))
        _violate(res, "enter_raised", -1, {"exception": "%s: %s" % (type(e).__name__, e)})
        return
    try:
        for si, st in enumerate(p["steps"]):
            res["nsteps"] += 1
            rows = st["rows"]
            n = len(rows)
            arr = gen.build_array(rows, st.get("fsarray"), st.get("fs_width", w), last_arr if st.get("reuse_object") else None)
            if arr is last_arr:
                world.probe("same_object_rendered_again")
            last_arr = arr
            if st.get("fsarray"):
                world.probe("fsarray")
            if not rows:
                world.probe("empty_array")
            fit = h - T
            if n <= fit:
                k, ret_exp, T2 = 0, 0, T
            else:
                k = n - fit
                ret_exp = max(0, k - T)
                T2 = max(0, T - k)
            if k and n - k - 1 >= 0 and fit > 0 and gen.row_len(rows[fit - 1]) == w:
                world.probe("full_width_bottom_before_scroll")
            if prev_scrolled and any(j < len(shown) and gen.row_cells(rows[j]) == gen.row_cells(shown[j])
                                     for j in range(min(n, fit))):
                world.probe("cache_hit_after_scroll")
            scrolls0 = term.scrolls["main"]
            try:
                ret = win.render_to_terminal(arr, tuple(st["cursor"]))
            except HarnessError:
                raise
            except Exception as e:
                if environment_artefact(e):
                    raise HarnessError("stub-environment artefact: %s: %s" % (type(e).__name__, e))
                _violate(res, "render_raised", si, {"exception": "%s: %s" % (type(e).__name__, e)})
                return
            A2 = A + [_pad(gen.row_cells(rows[i]), w) for i in range(ret_exp)]
            visible = rows[ret_exp:]
            exp = A2 + [_pad(gen.row_cells(r), w) for r in visible] + [tuple([BLANK] * w)] * (h - T2 - len(visible))
            got = term.document()
            world.log.add("oracle", si, ret, term.r, term.c, term.pending, term.scrolls["main"], len(term.scrollback))
            if k:
                world.probe("scrolled")
                if prev_scrolled:
                    world.probe("render_after_scrolled_render")
            if ret_exp:
                world.probe("rows_pushed_off")
            if T2 == 0 and T > 0:
                world.probe("top_reached_zero")
            res["states"].add("%d|%d|%s|%d|%d|%d|%d" % (h, T, "<=" if n <= fit else ">", k, ret_exp,
                                                     not term.scrollback, cfg["keep_last_line"]))
            if term.active != "main":
                _violate(res, "not_on_main_screen", si, {})
            if term.sb_cleared:
                _violate(res, "scrollback_cleared", si, {})
            if term.scrolls["main"] - scrolls0 != k:
                _violate(res, "scroll_count", si, {"scrolled": term.scrolls["main"] - scrolls0, "expected": k,
                                                   "h": h, "T": T, "n": n})
            if gen.diff_grid(A2, got[:len(A2)]) is not None:
                d = gen.diff_grid(A2, got[:len(A2)])
                _violate(res, "history_altered", si, {"diff": d, "h": h, "w": w, "T": T, "n": n,
                                                      "expected_history": gen.show_grid(A2),
                                                      "got": gen.show_grid(got)})
            d = gen.diff_grid(exp, got)
            if d is not None:
                d.update({"h": h, "w": w, "T": T, "n": n, "expected_document": gen.show_grid(exp),
                          "got_document": gen.show_grid(got)})
                _violate(res, "display_differs", si, d)
            if ret != ret_exp:
                _violate(res, "return_value", si, {"returned": ret, "expected": ret_exp, "h": h, "T": T, "n": n})
            cr, cc = st["cursor"]
            if not rows:
                pass        # an empty array has no cell for cursor_pos to designate: not judged
            elif cr >= ret_exp:
                want = (T2 + cr - ret_exp, cc)
                if (term.r, term.c) != want:
                    _violate(res, "cursor_position", si, {"expected": list(want), "got": [term.r, term.c],
                                                          "pending_wrap": term.pending, "T": T2, "returned": ret})
            else:
                world.probe("cursor_row_pushed_off")
            if res["violation"]:
                return
            # cache probe: a row unchanged relative to the previous array while the window scrolled
            prev_scrolled = bool(k)
            shown = visible
            T, A = T2, A2
    finally:
        on_bottom = term.r == term.h - 1
        # what leaving the context must keep: everything above the cursor's row, and with keep_last_line
        # ("the cursor is moved down one line on leaving") the cursor's row as well -- __exit__ clears from
        # the cursor downward only (document coordinates, so a scroll on the way out does not matter)
        doc_before = term.document()
        keep_upto = len(term.scrollback) + term.r + (1 if cfg["keep_last_line"] else 0)
        try:
            win.__exit__(None, None, None)
        except HarnessError:
            raise
        except Exception as e:
            if environment_artefact(e):
                raise HarnessError("stub-environment artefact: %s: %s" % (type(e).__name__, e))
            _violate(res, "exit_raised", len(p["steps"]), {"exception": "%s: %s" % (type(e).__name__, e)})
    if cfg["keep_last_line"] and on_bottom:
        world.probe("exit_keep_last_line_on_bottom")
    got = term.document()
    world.log.add("exit", term.r, term.c, len(term.scrollback), term.cursor_visible)
    if not res["violation"] and cfg["keep_last_line"] and gen.diff_grid(doc_before[:keep_upto], got[:keep_upto]) is not None:
        # (only with keep_last_line, whose documented purpose is to leave the last line in place; without it
        # the statement protects nothing but the history above the window's first row)
        d = gen.diff_grid(doc_before[:keep_upto], got[:keep_upto])
        name = "history_altered_at_exit" if d and d.get("row", 10 ** 9) < len(A) else "exit_erased_above_cursor"
        _violate(res, name, len(p["steps"]),
                 {"diff": d, "keep_last_line": cfg["keep_last_line"], "cursor_on_bottom_row": on_bottom,
                  "before": gen.show_grid(doc_before), "after": gen.show_grid(got)})
    if gen.diff_grid(A, got[:len(A)]) is not None:
        _violate(res, "history_altered_at_exit", len(p["steps"]),
                 {"diff": gen.diff_grid(A, got[:len(A)]), "expected_history": gen.show_grid(A), "got": gen.show_grid(got)})
    if term.sb_cleared:
        _violate(res, "scrollback_cleared", len(p["steps"]), {})
