"""Shared generation helpers: styled rows as JSON specs, conversion to real
curtsies objects, and the cells an independent reading of the spec expects."""

from .term import STYLE_NAMES, BLANK

COLORS = ("black", "red", "green", "yellow", "blue", "magenta", "cyan", "gray")
STYLES = ("bold", "dark", "italic", "underline", "blink", "invert")
ALPHABET = "abcdefghijklmnopqrstuvwxyzABCDEFGHIJKLMNOPQRSTUVWXYZ0123456789.,:;-_+*/=<>()[]{}|!?#$%&@^~'\" éßλЖ│─"


def gen_atts(rng, p_plain=0.35):
    """attribute dict for one run: fg/bg colour names, styles True or explicit False"""
    if rng.random() < p_plain:
        return {}
    a = {}
    if rng.random() < 0.5:
        a["fg"] = rng.choice(COLORS)
    if rng.random() < 0.4:
        a["bg"] = rng.choice(COLORS)
    for s in STYLES:
        r = rng.random()
        if r < 0.15:
            a[s] = True
        elif r < 0.20:
            a[s] = False
    return a


def gen_text(rng, n, p_space=0.15):
    out = []
    for _ in range(n):
        if rng.random() < p_space:
            out.append(" ")
        else:
            out.append(rng.choice(ALPHABET))
    return "".join(out)


def gen_row(rng, length, p_str=0.25):
    """row spec of exactly `length` single-column characters"""
    if rng.random() < p_str:
        return {"t": "str", "s": gen_text(rng, length)}
    nruns = 1 if length <= 1 else rng.choice((1, 1, 2, 2, 3, 4))
    cuts = sorted(rng.randrange(0, length + 1) for _ in range(nruns - 1)) if length else []
    bounds = [0] + cuts + [length]
    runs = []
    for i in range(len(bounds) - 1):
        n = bounds[i + 1] - bounds[i]
        if n == 0 and rng.random() < 0.7:
            continue
        runs.append([gen_text(rng, n), gen_atts(rng)])
    if not runs and rng.random() < 0.5:
        runs.append(["", gen_atts(rng)])
    return {"t": "fmt", "runs": runs}


def row_len(row):
    if row["t"] == "str":
        return len(row["s"])
    return sum(len(r[0]) for r in row["runs"])


def row_text(row):
    if row["t"] == "str":
        return row["s"]
    return "".join(r[0] for r in row["runs"])


def refmt_row(rng, row):
    """same text, different formatting (the 'differs only in formatting' pair)"""
    text = row_text(row)
    if row["t"] == "fmt" and len(row["runs"]) >= 2 and len(text) >= 2 and rng.random() < 0.4:
        # the same attribute sets in the same order, only the cut points move (a highlight sliding along the line)
        atts = [a for _t, a in row["runs"]]
        for _ in range(8):
            cuts = sorted(rng.randrange(0, len(text) + 1) for _ in range(len(atts) - 1))
            bounds = [0] + cuts + [len(text)]
            new = {"t": "fmt", "runs": [[text[bounds[i]:bounds[i + 1]], dict(atts[i])] for i in range(len(atts))]}
            if all(r[0] for r in new["runs"]) and row_cells(new) != row_cells(row):
                return new
    for _ in range(8):
        if not text:
            break
        new = {"t": "fmt", "runs": []}
        n = len(text)
        k = rng.choice((1, 1, 2, 3))
        cuts = sorted(rng.randrange(0, n + 1) for _ in range(k - 1))
        bounds = [0] + cuts + [n]
        for i in range(len(bounds) - 1):
            seg = text[bounds[i]:bounds[i + 1]]
            if seg:
                new["runs"].append([seg, gen_atts(rng, 0.2)])
        if row_cells(new) != row_cells(row):
            return new
    return row


def cell_for(ch, atts):
    fg = atts.get("fg")
    bg = atts.get("bg")
    st = 0
    for s, bit in STYLE_NAMES.items():
        if atts.get(s) is True:
            st |= bit
    return (ch,
            None if fg is None else 30 + COLORS.index(fg),
            None if bg is None else 40 + COLORS.index(bg),
            st)


def row_cells(row):
    """cells an independent reading of the spec expects on the screen"""
    if row["t"] == "str":
        return [(ch, None, None, 0) for ch in row["s"]]
    out = []
    for text, atts in row["runs"]:
        for ch in text:
            out.append(cell_for(ch, atts))
    return out


def build_row(row):
    """spec -> real curtsies object (str or FmtStr)"""
    from curtsies.formatstring import fmtstr, FmtStr
    if row["t"] == "str":
        return row["s"]
    out = FmtStr()
    first = True
    for text, atts in row["runs"]:
        piece = fmtstr(text, **atts)
        out = piece if first else out + piece
        first = False
    return out


def build_array(rows, as_fsarray, width, reuse=None):
    """reuse: the array object handed to the previous render -- when it is of the same kind it is mutated in
    place and handed over again (applications keep one list / FSArray and edit it between renders)"""
    from curtsies.formatstring import fmtstr
    from curtsies.formatstringarray import FSArray
    built = [build_row(r) for r in rows]
    if not as_fsarray:
        if isinstance(reuse, list):
            reuse[:] = built
            return reuse
        return built
    if isinstance(reuse, FSArray) and reuse.width == width:
        del reuse.rows[len(built):]
        for i, r in enumerate(built):
            row = fmtstr(r) if isinstance(r, str) else r
            if i < len(reuse.rows):
                reuse[i] = row
            else:
                reuse.rows.append(row)
        return reuse
    a = FSArray(len(built), width)
    for i, r in enumerate(built):
        a[i] = fmtstr(r) if isinstance(r, str) else r
    return a


def simplify_row(row):
    """candidates for minimisation: plain text, fewer attributes, shorter"""
    out = []
    text = row_text(row)
    if row["t"] != "str":
        out.append({"t": "str", "s": text})
        for i, (t, a) in enumerate(row["runs"]):
            for k in sorted(a):
                r2 = {"t": "fmt", "runs": [[tt, dict(aa)] for tt, aa in row["runs"]]}
                del r2["runs"][i][1][k]
                out.append(r2)
    else:
        if text and text != "a" * len(text):
            out.append({"t": "str", "s": "a" * len(text)})
    return out


def expected_grid(rows, h, w):
    grid = []
    for i in range(h):
        if i < len(rows):
            cells = row_cells(rows[i])[:w]
            grid.append(tuple(cells + [BLANK] * (w - len(cells))))
        else:
            grid.append(tuple([BLANK] * w))
    return grid


_VISIBLE_ON_SPACE = 8 | 32      # underline, invert


def canon(cell):
    """what a cell looks like: a colour index below 8 is the basic colour, and on a space only the
    background, underline and inversion (with the foreground it then shows) can be seen"""
    ch, fg, bg, st = cell
    if isinstance(fg, tuple) and fg[0] == "idx" and isinstance(fg[1], int) and 0 <= fg[1] < 8:
        fg = 30 + fg[1]
    if isinstance(bg, tuple) and bg[0] == "idx" and isinstance(bg[1], int) and 0 <= bg[1] < 8:
        bg = 40 + bg[1]
    if ch == " ":
        st &= _VISIBLE_ON_SPACE
        if not st & 32:
            fg = None
    return (ch, fg, bg, st)


def canon_grid(grid):
    return [tuple(canon(c) for c in row) for row in grid]


def show_grid(grid):
    return ["".join(c[0] for c in row) for row in grid]


def diff_grid(exp, got):
    """first cell that looks different, for messages (None: the grids look the same)"""
    exp, got = canon_grid(exp), canon_grid(got)
    for i, (e, g) in enumerate(zip(exp, got)):
        if tuple(e) != tuple(g):
            for j, (ce, cg) in enumerate(zip(e, g)):
                if ce != cg:
                    return {"row": i, "col": j, "expected": list(ce), "got": list(cg)}
            return {"row": i, "expected_len": len(e), "got_len": len(g)}
    if len(exp) != len(got):
        return {"rows_expected": len(exp), "rows_got": len(got)}
    return None
