"""The simulated world: virtual clock, environment event queue, event log,
simulated threads (baton passing) and the scheduler.

One World is one run.  Nothing here reads a real clock, sleeps, or draws from a
PRNG other than the scheduler PRNG created from the plan (mode 'rng'); in mode
'list' no PRNG exists at all (replay).  See DESIGN.md 2.4-2.6.
"""

import hashlib
import heapq
import random
import sys
import threading


class SimAbort(BaseException):
    """Unwinds a parked simulated thread when the run is torn down."""


class Quiescent(BaseException):
    """Every simulated thread is blocked and nothing can ever wake one."""


class StepCap(BaseException):
    """The per-run cap on yield points was exceeded (a hang)."""


class HarnessError(Exception):
    """Something is wrong with the harness/model, not with curtsies."""


def environment_artefact(e):
    """Is this exception, raised out of library code during a simulated run, an artefact of the stub
    environment rather than behaviour of the library?  (a) the library used a method the stand-in streams
    do not have; (b) the real OS answered EBADF/ENOTTY: a system call that is not behind a seam was made on
    a simulated descriptor.  Such a run is a harness error (exit 2), never a verdict."""
    import errno
    if isinstance(e, HarnessError):
        return True
    if isinstance(e, (AttributeError, TypeError)) and ("SimOut" in str(e) or "SimIn" in str(e)):
        return True
    if isinstance(e, OSError) and not getattr(e, "sim", False) and not isinstance(e, BlockingIOError) \
            and e.errno in (errno.EBADF, errno.ENOTTY, errno.ENOTSOCK):
        return True
    import termios
    if isinstance(e, termios.error) and not getattr(e, "sim", False) and e.args \
            and e.args[0] in (errno.EBADF, errno.ENOTTY):
        return True       # (termios.error is not an OSError)
    return False


class Log:
    """Event log: incremental SHA-1 over reprs + optional kept entries."""

    __slots__ = ("h", "n", "keep", "entries", "frozen")

    def __init__(self, keep=False):
        self.h = hashlib.sha1()
        self.n = 0
        self.keep = keep
        self.entries = []
        self.frozen = False

    def add(self, *t):
        if self.frozen:
            return
        self.n += 1
        s = repr(t)
        self.h.update(s.encode("utf-8", "backslashreplace"))
        if self.keep:
            self.entries.append(s)

    def digest(self):
        return self.h.hexdigest()


class SimThread:
    __slots__ = ("name", "idx", "state", "pred", "deadline", "sem", "real",
                 "fn", "exc", "world", "pending_exc", "blocked_in")

    def __init__(self, world, name, idx, fn=None):
        self.world = world
        self.name = name
        self.idx = idx
        self.state = "runnable"      # runnable | running | blocked | done
        self.pred = None
        self.deadline = None
        self.sem = threading.Semaphore(0)
        self.real = None
        self.fn = fn
        self.exc = None              # exception that ended the thread's script
        self.pending_exc = None      # exception to raise when it next resumes
        self.blocked_in = None


class Sched:
    """Scheduling decisions.  mode 'rng': PCT-like forced pre-emptions at chosen
    yield ordinals plus switch probability p, recorded; mode 'list': replay a
    recorded decision list with deterministic defaults."""

    def __init__(self, cfg):
        cfg = cfg or {"mode": "list", "decisions": []}
        self.mode = cfg.get("mode", "list")
        self.decisions = []          # recorded [ordinal, thread idx]
        if self.mode == "rng":
            self.rng = random.Random(cfg["seed"])
            self.p = cfg.get("p", 0.0)
            self.forced = set(cfg.get("forced", ()))
        else:
            self.table = {}
            for o, idx in cfg.get("decisions", ()):
                self.table[o] = idx

    def at_yield(self, ordinal, cur_idx, others):
        """others: sorted list of runnable thread idx other than the current.
        Returns idx to switch to, or None to continue."""
        if self.mode == "rng":
            if not others:
                return None
            if ordinal in self.forced or (self.p and self.rng.random() < self.p):
                idx = others[self.rng.randrange(len(others))] if len(others) > 1 else others[0]
                self.decisions.append([ordinal, idx])
                return idx
            return None
        idx = self.table.get(ordinal)
        if idx is not None and idx in others:
            return idx
        return None

    def at_block(self, ordinal, candidates):
        """current thread cannot continue; candidates: sorted idx list (non-empty)."""
        if len(candidates) == 1:
            return candidates[0]
        if self.mode == "rng":
            idx = candidates[self.rng.randrange(len(candidates))]
            self.decisions.append([ordinal, idx])
            return idx
        idx = self.table.get(ordinal)
        if idx is not None and idx in candidates:
            return idx
        return candidates[0]


class World:
    def __init__(self, cfg=None, sched=None, keep_log=False):
        cfg = cfg or {}
        self.cfg = cfg
        self.now = float(cfg.get("epoch", 1000.0))
        self.t0 = self.now
        self.tick = float(cfg.get("tick", 0.0))            # virtual cost of a seam call
        self.time_cost = float(cfg.get("time_cost", 0.0))  # virtual cost of time.time()
        self.overshoot = float(cfg.get("overshoot", 0.0))  # timers never fire early, may fire late
        self.yield_cap = int(cfg.get("yield_cap", 200000))
        self.log = Log(keep_log)
        self.env = []                # heap of (time, seq, kind, payload)
        self.env_seq = 0
        self.sched = Sched(sched)
        self.main = SimThread(self, "main", 0)
        self.main.state = "running"
        self.threads = [self.main]
        self.current = self.main
        self.yields = 0
        self.aborting = False
        self.quiescent = False
        self.env_handlers = {}       # kind -> callable(payload)
        self.seam_ord = 0            # seam-call ordinal of the main thread within the current step
        self.seam_hooks = {}         # ordinal -> list of (kind, payload) applied at that seam call
        self.on_main_seam = None     # callable(name) run at every main-thread seam (signal delivery)
        self.main_wake = None        # callable(blocked_in) -> True when a deliverable signal is pending
        self.on_quiescent = None     # callable() -> True if it injected something that may wake a thread
        self.on_main_line = None     # callable() run at traced line boundaries of the main thread
        self.main_waited = False     # the clock advanced while the watched (application) thread was blocked
        self.watch = self.main       # the application thread (the main thread unless a check says otherwise)
        self.on_clock_jump = None    # callable(t_from, t_to) when the clock jumps with every thread blocked
        self._last_read = None
        self._same_reads = 0
        self.at_line = 0             # line of curtsies/input.py at the current traced yield point (0: a seam call)
        self.preempt_sites = set()   # (line of input.py, pre-empted thread is a trigger thread) where a switch happened
        self.probes = {}
        self.faults = {}

    # ------------------------------------------------------------- bookkeeping
    def probe(self, name, n=1):
        self.probes[name] = self.probes.get(name, 0) + n

    def fault(self, name, n=1):
        self.faults[name] = self.faults.get(name, 0) + n

    # ------------------------------------------------------------- environment
    def at(self, when, kind, payload=None):
        self.env_seq += 1
        heapq.heappush(self.env, (float(when), self.env_seq, kind, payload))

    def after(self, delay, kind, payload=None):
        self.at(self.now + delay, kind, payload)

    def _apply_env(self, ev):
        t, seq, kind, payload = ev
        self.log.add("env", round(t, 9), kind, payload if not callable(payload) else None)
        h = self.env_handlers.get(kind)
        if h is None:
            raise HarnessError("no handler for environment event %r" % kind)
        h(payload)

    def apply_due_env(self):
        env = self.env
        while env and env[0][0] <= self.now:
            self._apply_env(heapq.heappop(env))

    # ------------------------------------------------------------- seam entry
    def seam(self, name):
        """Called at the start of every seam call made by simulated code."""
        cur = self.current
        if self.aborting:
            if cur.pending_exc is not None:
                e, cur.pending_exc = cur.pending_exc, None
                raise e
            return
        if cur is self.main:
            self.seam_ord += 1
            hooks = self.seam_hooks
            if hooks:
                evs = hooks.pop(self.seam_ord, None)
                if evs:
                    for kind, payload in evs:
                        self._apply_env((self.now, 0, kind, payload))
        if self.tick:
            self.now += self.tick
        if self.env and self.env[0][0] <= self.now:
            self.apply_due_env()
        if cur is self.main and self.on_main_seam is not None:
            self.on_main_seam(name, False)
        self.yield_point()

    def time(self):
        if self.time_cost:
            self.now += self.time_cost
        else:
            # a coarse clock may return the same value a few times in a row, but no clock stands still for
            # ever: a library loop that polls until time has passed must terminate
            if self.now == self._last_read:
                self._same_reads += 1
                if self._same_reads >= 4:
                    self.now += 1e-6
                    self._same_reads = 0
            else:
                self._same_reads = 0
            self._last_read = self.now
        return self.now

    def line_point(self, lineno=0):
        """a traced line boundary in curtsies/input.py: a pre-emption point and, for the main
        thread, a point where handlers that return normally may run"""
        if self.aborting:
            return
        self.at_line = lineno
        if self.current is self.main and self.on_main_line is not None:
            self.on_main_line()
        self.yield_point()

    def make_tracer(self, filename, opcodes_for=None, skip_func=None):
        """trace function: every line of `filename` is a pre-emption point; opcodes_for(thread) -> True makes
        every bytecode of that thread's frames in `filename` one as well; skip_func(filename, function name) ->
        True leaves that function (a per-byte hot path) untraced"""
        def local(frame, event, arg):
            if event == "line" or event == "opcode":
                self.line_point(frame.f_lineno)
            return local

        match = filename if callable(filename) else (lambda fn: fn == filename)
        cache = {}

        def tracer(frame, event, arg):
            if event != "call":
                return None
            code = frame.f_code
            hit = cache.get(code)
            if hit is None:
                fn = code.co_filename
                hit = cache.get(fn)
                if hit is None:
                    hit = cache[fn] = bool(match(fn))
                if hit and skip_func is not None and skip_func(fn, code.co_name):
                    hit = False
                cache[code] = hit
            if hit:
                if opcodes_for is not None and opcodes_for(self.current):
                    frame.f_trace_opcodes = True
                return local
            return None
        return tracer

    # ------------------------------------------------------------- scheduling
    def yield_point(self):
        self.yields += 1
        if self.yields > self.yield_cap:
            raise StepCap()
        if len(self.threads) == 1:
            return
        cur = self.current
        others = [t.idx for t in self.threads if t is not cur and self._can_run(t)]
        if not others:
            return
        idx = self.sched.at_yield(self.yields, cur.idx, others)
        if idx is not None:
            self.fault("preempt")
            if self.at_line:
                self.preempt_sites.add((self.at_line, cur.idx != 0))
            cur.state = "runnable"
            self._switch(self.threads[idx])
        self.at_line = 0

    def _can_run(self, t):
        if t.state == "runnable":
            return True
        if t.state == "blocked":
            if t.pending_exc is not None:
                return True
            if t is self.main and self.main_wake is not None and self.main_wake(t.blocked_in):
                return True
            if t.pred is not None and t.pred():
                return True
            if t.deadline is not None and self.now >= t.deadline:
                return True
        return False

    def _switch(self, nxt):
        """Hand the baton from the current thread to nxt and park until it comes back."""
        cur = self.current
        if nxt is cur:
            cur.state = "running"
            return
        self.log.add("switch", cur.idx, nxt.idx, self.yields)
        self.current = nxt
        nxt.state = "running"
        if nxt.real is None and nxt is not self.main:
            self._start_real(nxt)
        nxt.sem.release()
        cur.sem.acquire()
        # resumed
        if self.aborting and cur is not self.main:
            raise SimAbort()
        if cur.pending_exc is not None:
            e, cur.pending_exc = cur.pending_exc, None
            raise e

    def block_until(self, pred, deadline=None, what=""):
        """Block the calling simulated thread until pred() or the deadline.
        Returns True if pred() holds, False on time-out.  May raise whatever a
        signal handler delivered in here raises (main thread only)."""
        cur = self.current
        first = True
        while True:
            if cur.pending_exc is not None:
                e, cur.pending_exc = cur.pending_exc, None
                cur.state = "running"
                raise e
            if self.aborting:
                raise SimAbort()
            if cur is self.main and self.on_main_seam is not None:
                self.on_main_seam(what, not pred())
            if pred():
                return True
            if deadline is not None and self.now >= deadline:
                return False
            if first:
                self.log.add("block", cur.idx, what,
                             None if deadline is None else round(deadline - self.now, 9))
                first = False
            cur.state = "blocked"
            cur.pred = pred
            cur.deadline = deadline
            cur.blocked_in = what
            nxt = self._pick_after_block()
            if nxt is None:
                self.quiescent = True
                self.log.add("quiescent", cur.idx)
                self._raise_quiescent(cur)
            if nxt is cur:
                cur.state = "running"
                cur.pred = None
            else:
                self._switch(nxt)
                cur.pred = None

    def _raise_quiescent(self, cur):
        self.aborting = True
        if cur is self.main:
            cur.state = "running"
            raise Quiescent()
        # hand over to main, which raises Quiescent from its blocked call
        self.main.pending_exc = Quiescent()
        self._switch(self.main)
        raise SimAbort()

    def _pick_after_block(self):
        """Find the next thread to run when the current one is blocked; advances
        the environment / jumps the clock when nobody can run."""
        while True:
            cands = [t.idx for t in self.threads if self._can_run(t)]
            if cands:
                self.yields += 1
                if self.yields > self.yield_cap:
                    self.aborting = True
                    if self.current is self.main:
                        self.current.state = "running"
                        raise StepCap()
                    self.main.pending_exc = StepCap()
                    return self.main
                idx = self.sched.at_block(self.yields, cands)
                return self.threads[idx]
            # nobody can run: advance to the next environment event or deadline
            nxt_t = None
            if self.env:
                nxt_t = self.env[0][0]
            for t in self.threads:
                if t.state == "blocked" and t.deadline is not None:
                    d = t.deadline + self.overshoot
                    if nxt_t is None or d < nxt_t:
                        nxt_t = d
            if nxt_t is None:
                if self.on_quiescent is not None and self.on_quiescent():
                    continue
                return None
            if nxt_t > self.now:
                if self.watch.state == "blocked":
                    self.main_waited = True
                    if self.on_clock_jump is not None:
                        self.on_clock_jump(self.now, nxt_t)
                self.now = nxt_t
            if self.env and self.env[0][0] <= self.now:
                self._apply_env(heapq.heappop(self.env))

    # ------------------------------------------------------------- threads
    def spawn(self, name, fn):
        t = SimThread(self, name, len(self.threads), fn)
        self.threads.append(t)
        self.log.add("spawn", t.idx, name)
        return t

    def _start_real(self, t):
        def boot():
            t.sem.acquire()
            try:
                if self.aborting:
                    return
                tr = getattr(self, "thread_tracer", None)
                if tr is not None:
                    sys.settrace(tr)
                try:
                    t.fn()
                finally:
                    sys.settrace(None)
            except SimAbort:
                pass
            except BaseException as e:   # recorded; judged by the check
                t.exc = e
            finally:
                t.state = "done"
                t.pred = None
                if not self.aborting:
                    self.log.add("done", t.idx, type(t.exc).__name__ if t.exc else None)
                    self._thread_finished(t)

        t.real = threading.Thread(target=boot, name="sim-%s" % t.name, daemon=True)
        t.real.start()

    def _thread_finished(self, t):
        # pass the baton on; this real thread then ends
        nxt = self._pick_after_block()
        if nxt is None:
            self.quiescent = True
            self.aborting = True
            self.main.pending_exc = Quiescent()
            nxt = self.main
        self.log.add("switch", t.idx, nxt.idx, self.yields)
        self.current = nxt
        nxt.state = "running"
        if nxt.real is None and nxt is not self.main:
            self._start_real(nxt)
        nxt.sem.release()

    def join_all(self):
        """Main thread: wait (in simulated terms) until all other threads are done."""
        if len(self.threads) > 1:
            self.block_until(lambda: all(t.state == "done" for t in self.threads[1:]),
                             None, "join")

    def shutdown(self):
        """Tear down: release every parked thread with the abort flag and join."""
        self.aborting = True
        self.log.frozen = True
        for t in self.threads[1:]:
            if t.real is not None and t.state != "done":
                t.sem.release()
        for t in self.threads[1:]:
            if t.real is not None:
                t.real.join(5.0)
                if t.real.is_alive():
                    raise HarnessError("simulated thread %s did not unwind" % t.name)
