"""Assemble one simulated world: clock/threads (World), kernel with one tty,
terminal model wired to the tty's input queue for DSR replies, in/out streams."""

from . import seams
from .kernel import Kernel, SimIn, SimOut, sane_attrs
from .term import TermModel
from .world import World

import gc as _gc
import termios as _termios


class Sim:
    pass


def make(cfg, sched=None, keep_log=False):
    """cfg keys (all optional except h, w): h, w, encoding, read_size, pipe_cap,
    tty_attrs, tty_flags, reply_delay, c1_reply, epoch, tick, time_cost, overshoot,
    yield_cap"""
    s = Sim()
    s.world = World(cfg, sched, keep_log)
    s.kernel = Kernel(s.world, cfg.get("pipe_cap", 65536))
    attrs = cfg.get("tty_attrs")
    if attrs is None:
        attrs = sane_attrs()
    else:
        attrs = [attrs[0], attrs[1], attrs[2], attrs[3], attrs[4], attrs[5], list(attrs[6])]
    s.fd, s.tty = s.kernel.open_tty(attrs, cfg.get("tty_flags"), 0 if cfg.get("tty_fd0") else None)
    onlcr = bool(attrs[1] & _termios.OPOST) and bool(attrs[1] & _termios.ONLCR)
    if "onlcr" in cfg:
        onlcr = cfg["onlcr"]
    s.reply_delay = cfg.get("reply_delay", 0.0)      # (a check may change it between operations)
    enc = cfg.get("encoding", "utf-8")

    def reply(text):
        data = text.encode(enc if enc != "ascii" else "latin-1", "replace")
        if s.reply_delay:
            s.world.after(s.reply_delay, "arrive", data.hex())
        else:
            s.world.log.add("reply", text)
            s.kernel.arrive(s.fd, data)

    s.term = TermModel(cfg["h"], cfg["w"], reply=reply, onlcr=onlcr, c1_reply=cfg.get("c1_reply", False))
    s.world.term = s.term
    s.out = SimOut(s.world, s.term, cfg.get("out_buffer", "none"))
    s.inp = SimIn(s.world, s.kernel, s.fd, enc)
    s.world.env_handlers["arrive"] = lambda hexdata: s.kernel.arrive(s.fd, bytes.fromhex(hexdata))
    s.world.env_handlers["signal"] = lambda signum: s.kernel.sig.post(signum)
    seams.bind(s.world, s.kernel, enc, cfg.get("read_size"), cfg.get("locale_name"))
    if cfg.get("platform"):
        seams.set_platform(cfg["platform"])
    return s


def finish(s):
    try:
        s.world.shutdown()
    finally:
        try:
            # finalizers of what the run created (weakref.finalize, __del__) belong to this run's world: they must
            # not fire in the middle of a later run and close its descriptors
            _gc.collect()
        finally:
            seams.unbind()
