"""Seams: substitute the module attributes curtsies reaches the outside world
through (DESIGN.md 2.2).  Installed once per process; every call dispatches to
the World bound for the current run.  Nothing in /repo is edited.
"""

import fcntl as _fcntl
import logging
import os as _os
import select as _select
import signal as _signal
import sys
import termios as _termios
import time as _time
import tty as _tty

REPO = _os.environ.get("CURTSIES_REPO", "/repo")
_os.environ["TERM"] = "xterm-256color"
for _v in ("NO_COLOR", "FORCE_COLOR", "CLICOLOR_FORCE", "LINES", "COLUMNS"):
    _os.environ.pop(_v, None)
if sys.path[0] != REPO:
    sys.path.insert(0, REPO)

import blessed  # noqa: E402
import blessed.terminal  # noqa: E402
import curtsies  # noqa: E402
import curtsies.input  # noqa: E402
import curtsies.termhelpers  # noqa: E402
import curtsies.window  # noqa: E402
import curtsies.events  # noqa: E402

_cf = _os.path.realpath(curtsies.__file__)
if not _cf.startswith(_os.path.realpath(REPO) + _os.sep):
    raise RuntimeError("curtsies imported from %s, not from %s" % (_cf, REPO))

logging.disable(logging.CRITICAL)

_W = None          # the bound World
_K = None          # its Kernel


class Proxy:
    """module stand-in: overridden names go to the simulator, the rest (constants,
    exception types, helpers) to the real module."""

    def __init__(self, real, overrides):
        self.__dict__["_real"] = real
        self.__dict__.update(overrides)

    def __getattr__(self, name):
        return getattr(self._real, name)


def _k():
    if _K is None:
        raise RuntimeError("seam call outside a bound simulated world")
    return _K


os_proxy = Proxy(_os, {
    "read": lambda fd, n: _k().read(fd, n),
    "write": lambda fd, data: _k().write(fd, data),
    "close": lambda fd: _k().close(fd),
    "pipe": lambda: _k().pipe(),
    "set_blocking": lambda fd, b: _k().set_blocking(fd, b),
    "get_blocking": lambda fd: _k().get_blocking(fd),
})
select_proxy = Proxy(_select, {
    "select": lambda r, w, x, timeout=None: _k().select(r, w, x, timeout),
})
signal_proxy = Proxy(_signal, {
    "signal": lambda signum, handler: _k().sig.signal(signum, handler),
    "getsignal": lambda signum: _k().sig.getsignal(signum),
    "set_wakeup_fd": lambda fd, **kw: _k().sig.set_wakeup_fd(fd, **kw),
})
termios_proxy = Proxy(_termios, {
    "tcgetattr": lambda fd: _k().tcgetattr(fd),
    "tcsetattr": lambda fd, when, attrs: _k().tcsetattr(fd, when, attrs),
})
tty_proxy = Proxy(_tty, {
    "setcbreak": lambda fd, when=_termios.TCSAFLUSH: _k().setcbreak(fd, when),
    "setraw": lambda fd, when=_termios.TCSAFLUSH: _k().setraw(fd, when),
    "tcgetattr": lambda fd: _k().tcgetattr(fd),
    "tcsetattr": lambda fd, when, attrs: _k().tcsetattr(fd, when, attrs),
})
time_proxy = Proxy(_time, {
    "time": lambda: _W.time(),
    "monotonic": lambda: _W.time(),
    "sleep": lambda s: _W.block_until(lambda: False, _W.now + s, "sleep"),
})
fcntl_proxy = Proxy(_fcntl, {
    "fcntl": lambda fd, cmd, arg=0: _k().fcntl(fd, cmd, arg),
})

_encoding = ["utf-8"]
_installed = False
_saved = {}

_WINSZ = blessed.terminal.WINSZ


def _height_and_width(self):
    t = _W.term
    return _WINSZ(ws_row=t.h, ws_col=t.w, ws_xpixel=None, ws_ypixel=None)


_term_templates = {}
_orig_term_init = blessed.Terminal.__init__


def _memo_term_init(self, kind=None, stream=None, force_styling=False, *a, **kw):
    """blessed.Terminal construction costs ~1.5 ms, almost all of it capability tables
    that depend only on (kind, force_styling) for a non-tty stream.  Build those once
    per process and per argument tuple and give every further instance its own shallow
    copy (fresh mutable containers, its own stream).  Everything curtsies uses on the
    object (capability strings, move, location, fullscreen) is real blessed code.
    CURTSIES_VERIF_NO_MEMO=1 turns this off; `check selftest determinism` compares both."""
    from .kernel import SimOut
    if a or kw or not isinstance(stream, SimOut):
        return _orig_term_init(self, kind, stream, force_styling, *a, **kw)
    key = (kind, force_styling)
    tpl = _term_templates.get(key)
    if tpl is None:
        _orig_term_init(self, kind, stream, force_styling)
        _term_templates[key] = dict(self.__dict__)
        return
    d = dict(tpl)
    d["_stream"] = stream
    d["errors"] = list(tpl["errors"])
    for k, v in tpl.items():
        if type(v) is dict and k.startswith("_") and not v:
            d[k] = {}
    import collections
    d["_keyboard_buf"] = collections.deque()
    self.__dict__.update(d)


def install():
    global _installed
    if _installed:
        return
    _installed = True
    ci = curtsies.input
    th = curtsies.termhelpers
    for mod, name, val in (
        (ci, "os", os_proxy), (ci, "select", select_proxy), (ci, "signal", signal_proxy),
        (ci, "termios", termios_proxy), (ci, "tty", tty_proxy), (ci, "time", time_proxy),
        (ci, "is_main_thread", lambda: _K.sig.is_main() and _K.sig.app_is_main),
        (ci, "getpreferredencoding", lambda: _encoding[0]),
        (th, "tty", tty_proxy), (th, "termios", termios_proxy),
        (th, "fcntl", fcntl_proxy), (th, "os", os_proxy),
        (blessed.Terminal, "_height_and_width", _height_and_width),
    ):
        _saved[(mod, name)] = getattr(mod, name)
        setattr(mod, name, val)
    _saved[(ci, "READ_SIZE")] = ci.READ_SIZE
    if not _os.environ.get("CURTSIES_VERIF_NO_MEMO"):
        blessed.Terminal.__init__ = _memo_term_init


def bind(world, kernel, encoding="utf-8", read_size=None):
    """Make `world` the target of every seam call (one run at a time per process)."""
    global _W, _K
    install()
    _W, _K = world, kernel
    _encoding[0] = encoding
    curtsies.input.READ_SIZE = read_size if read_size is not None else _saved[(curtsies.input, "READ_SIZE")]


def unbind():
    global _W, _K
    _W = _K = None
    curtsies.input.READ_SIZE = _saved[(curtsies.input, "READ_SIZE")]


def repo_read_size():
    install()
    return _saved[(curtsies.input, "READ_SIZE")]
