"""Seams: route everything curtsies does to the outside world into the simulator
(DESIGN.md 2.2).  Nothing in /repo is edited.

The library reaches the world through os / select / fcntl / termios / tty / signal /
time / locale.  Those functions are replaced *process-wide* by dispatchers that go to
the bound simulated kernel when a World is bound and the call concerns a simulated
descriptor (or, for calls without a descriptor, whenever a World is bound), and to the
real function otherwise.  Being installed before curtsies is imported, they also cover
`from os import read`-style imports, so a refactoring of import style or of module
layout in curtsies cannot route around the simulator (or crash the harness).
"""

import collections
import fcntl as _fcntl
import locale as _locale
import logging
import os as _os
import select as _select
import signal as _signal
import sys
import termios as _termios
import time as _time
import tty as _tty

REPO = _os.environ.get("CURTSIES_REPO", "/repo")
_os.environ["TERM"] = "xterm-256color"
for _v in ("NO_COLOR", "FORCE_COLOR", "CLICOLOR_FORCE", "LINES", "COLUMNS"):
    _os.environ.pop(_v, None)
if sys.path[0] != REPO:
    sys.path.insert(0, REPO)

_W = None          # the bound World
_K = None          # its Kernel
_encoding = ["utf-8"]

_R = {             # the real functions
    "os.read": _os.read, "os.write": _os.write, "os.close": _os.close, "os.pipe": _os.pipe,
    "os.set_blocking": _os.set_blocking, "os.get_blocking": _os.get_blocking,
    "select.select": _select.select, "fcntl.fcntl": _fcntl.fcntl,
    "termios.tcgetattr": _termios.tcgetattr, "termios.tcsetattr": _termios.tcsetattr,
    "signal.signal": _signal.signal, "signal.getsignal": _signal.getsignal, "signal.set_wakeup_fd": _signal.set_wakeup_fd,
    "time.time": _time.time, "time.monotonic": _time.monotonic, "time.sleep": _time.sleep,
    "locale.getpreferredencoding": _locale.getpreferredencoding,
    "os.isatty": _os.isatty, "os.get_terminal_size": _os.get_terminal_size, "fcntl.ioctl": _fcntl.ioctl,
    "termios.tcflush": _termios.tcflush, "termios.tcdrain": _termios.tcdrain, "termios.tcflow": _termios.tcflow,
    "termios.tcsendbreak": _termios.tcsendbreak,
    "time.perf_counter": _time.perf_counter, "time.time_ns": _time.time_ns, "time.monotonic_ns": _time.monotonic_ns,
    "select.poll": getattr(_select, "poll", None), "select.epoll": getattr(_select, "epoll", None),
    "os.pipe2": getattr(_os, "pipe2", None), "os.dup": _os.dup, "os.dup2": _os.dup2,
    "termios.tcgetwinsize": getattr(_termios, "tcgetwinsize", None),
    "os.eventfd": getattr(_os, "eventfd", None),
    "signal.pthread_sigmask": _signal.pthread_sigmask,
}
for _n in ("sigpending", "sigwait", "sigwaitinfo", "sigtimedwait", "siginterrupt", "setitimer", "alarm",
           "pthread_kill", "raise_signal"):
    _R["signal." + _n] = getattr(_signal, _n, None)


def _fdof(x):
    if isinstance(x, int):
        return x
    f = getattr(x, "fileno", None)
    return f() if f is not None else None


def _sim(fd):
    k = _K
    return k is not None and fd in k.fds


def _os_read(fd, n):
    if _K is not None and fd in _K.fds:
        return _K.read(fd, n)
    return _R["os.read"](fd, n)


def _os_write(fd, data):
    if _K is not None and fd in _K.fds:
        return _K.write(fd, data)
    return _R["os.write"](fd, data)


def _os_close(fd):
    if _K is not None and fd in _K.fds:
        return _K.close(fd)
    return _R["os.close"](fd)


def _os_pipe():
    if _K is not None:
        return _K.pipe()
    return _R["os.pipe"]()


def _os_pipe2(flags):
    if _K is not None:
        r, w = _K.pipe()
        if flags & _os.O_NONBLOCK:
            _K.set_blocking(r, False)
            _K.set_blocking(w, False)
        return r, w
    return _R["os.pipe2"](flags)


def _not_modelled(name):
    real = _R[name]

    def f(*a, **kw):
        if _K is not None and (not a or not isinstance(a[0], int) or a[0] in _K.fds or name == "os.eventfd"):
            from .world import HarnessError
            raise HarnessError("%s is not modelled by the simulated kernel" % name)
        return real(*a, **kw)
    return f


def _tcgetwinsize(fd):
    if _K is not None and _fdof(fd) in _K.fds:
        _K._tty_of(fd)
        t = _W.term
        return (t.h, t.w)
    return _R["termios.tcgetwinsize"](fd)


def _os_set_blocking(fd, blocking):
    if _K is not None and fd in _K.fds:
        return _K.set_blocking(fd, blocking)
    return _R["os.set_blocking"](fd, blocking)


def _os_get_blocking(fd):
    if _K is not None and fd in _K.fds:
        return _K.get_blocking(fd)
    return _R["os.get_blocking"](fd)


def _select_select(r, w, x, timeout=None):
    k = _K
    if k is not None:
        for o in r:
            fd = o if isinstance(o, int) else _fdof(o)
            if fd in k.fds or (isinstance(fd, int) and fd >= 1000):
                return k.select(r, w, x, timeout)
    return _R["select.select"](r, w, x, timeout)


def _fcntl_fcntl(fd, cmd, arg=0):
    if _K is not None and _fdof(fd) in _K.fds:
        return _K.fcntl(fd, cmd, arg)
    return _R["fcntl.fcntl"](fd, cmd, arg)


def _tcgetattr(fd):
    if _K is not None and _fdof(fd) in _K.fds:
        return _K.tcgetattr(fd)
    return _R["termios.tcgetattr"](fd)


def _tcsetattr(fd, when, attrs):
    if _K is not None and _fdof(fd) in _K.fds:
        return _K.tcsetattr(fd, when, attrs)
    return _R["termios.tcsetattr"](fd, when, attrs)


def _signal_signal(signum, handler):
    if _K is not None:
        return _K.sig.signal(signum, handler)
    return _R["signal.signal"](signum, handler)


def _signal_getsignal(signum):
    if _K is not None:
        return _K.sig.getsignal(signum)
    return _R["signal.getsignal"](signum)


def _signal_set_wakeup_fd(fd, **kw):
    if _K is not None:
        return _K.sig.set_wakeup_fd(fd, **kw)
    return _R["signal.set_wakeup_fd"](fd, **kw)


def _signal_pthread_sigmask(how, mask):
    if _K is not None:
        return _K.sig.pthread_sigmask(how, mask)
    return _R["signal.pthread_sigmask"](how, mask)


def _signal_not_modelled(name):
    def f(*a, **kw):
        if _K is not None:
            from .world import HarnessError
            raise HarnessError("%s is not modelled by the simulated kernel" % name)
        return _R[name](*a, **kw)
    f.__name__ = name.split(".")[1]
    return f


def _time_time():
    if _W is not None:
        return _W.time()
    return _R["time.time"]()


_MONO_ORIGIN = 54321.0      # the monotonic clocks do not share the epoch of time.time()


def _time_monotonic():
    if _W is not None:
        return _W.time() - _W.t0 + _MONO_ORIGIN
    return _R["time.monotonic"]()


def _time_sleep(s):
    if _W is not None:
        _W.block_until(lambda: False, _W.now + s, "sleep")
        return None
    return _R["time.sleep"](s)


def _getpreferredencoding(do_setlocale=True):
    if _W is not None:
        return _encoding[0]
    return _R["locale.getpreferredencoding"](do_setlocale)


def _os_isatty(fd):
    if _K is not None and fd in _K.fds:
        return _K.isatty(fd)
    return _R["os.isatty"](fd)


def _os_get_terminal_size(fd=1):
    if _K is not None and fd in _K.fds:
        t = _W.term
        return _os.terminal_size((t.w, t.h))
    return _R["os.get_terminal_size"](fd)


def _fill(arg, data, mutate_flag):
    """ioctl's out-parameter convention: any writable buffer (bytearray, array.array, memoryview) is filled"""
    if not mutate_flag or isinstance(arg, (int, bytes, str)):
        return False
    try:
        mv = memoryview(arg).cast("B")
    except TypeError:
        return False
    if mv.readonly:
        return False
    mv[:len(data)] = data
    return True


def _fcntl_ioctl(fd, request, arg=0, mutate_flag=True):
    if _K is not None and _fdof(fd) in _K.fds:
        import struct
        if request == _termios.TIOCGWINSZ:
            t = _W.term
            data = struct.pack("HHHH", t.h, t.w, 0, 0)
            if _fill(arg, data, mutate_flag):
                return 0
            return data
        if request == getattr(_termios, "FIONREAD", -1):
            o = _K.fds[_fdof(fd)]
            n = len(o.inq) if o.kind == "tty" else len(o.pipe.buf)
            data = struct.pack("i", n)
            if _fill(arg, data, mutate_flag):
                return 0
            return data
        from .world import HarnessError
        raise HarnessError("ioctl request %r on a simulated descriptor is not modelled" % (request,))
    return _R["fcntl.ioctl"](fd, request, arg, mutate_flag)


def _tcflush(fd, queue):
    if _K is not None and _fdof(fd) in _K.fds:
        return _K.tcflush(fd, queue)
    return _R["termios.tcflush"](fd, queue)


def _tc_noop(name):
    def f(fd, *a):
        if _K is not None and _fdof(fd) in _K.fds:
            _K._tty_of(fd)
            return None
        return _R[name](fd, *a)
    return f


def _time_ns():
    if _W is not None:
        return int(_W.time() * 1e9)
    return _R["time.time_ns"]()


def _monotonic_ns():
    if _W is not None:
        return int((_W.time() - _W.t0 + _MONO_ORIGIN) * 1e9)
    return _R["time.monotonic_ns"]()


def _perf_counter():
    if _W is not None:
        return _W.time() - _W.t0 + 99.0
    return _R["time.perf_counter"]()


def _unsupported_poller(name):
    real = _R[name]

    class Poller:
        """stands in for select.poll / select.epoll (a class, so that it can be stored as a class attribute the
        way selectors.py does): outside a simulated run it simply is the real thing"""

        def __new__(cls, *a, **kw):
            if _K is not None:
                # poll/epoll objects live in C; waiting on simulated descriptors with them is not modelled: say so
                # (exit 2) instead of letting the real kernel answer EBADF inside the library
                from .world import HarnessError
                raise HarnessError("%s is not behind a seam (only select.select is simulated)" % name)
            return real(*a, **kw)
    Poller.__name__ = name.split(".")[1]
    return Poller


def _install_global():
    _os.read, _os.write, _os.close, _os.pipe = _os_read, _os_write, _os_close, _os_pipe
    _os.set_blocking, _os.get_blocking = _os_set_blocking, _os_get_blocking
    _select.select = _select_select
    _fcntl.fcntl = _fcntl_fcntl
    _termios.tcgetattr, _termios.tcsetattr = _tcgetattr, _tcsetattr
    _tty.tcgetattr, _tty.tcsetattr = _tcgetattr, _tcsetattr
    _signal.signal, _signal.getsignal, _signal.set_wakeup_fd = _signal_signal, _signal_getsignal, _signal_set_wakeup_fd
    _signal.pthread_sigmask = _signal_pthread_sigmask
    for _n in ("sigpending", "sigwait", "sigwaitinfo", "sigtimedwait", "siginterrupt", "setitimer", "alarm",
               "pthread_kill", "raise_signal"):
        if _R.get("signal." + _n) is not None:
            setattr(_signal, _n, _signal_not_modelled("signal." + _n))
    _time.time, _time.monotonic, _time.sleep = _time_time, _time_monotonic, _time_sleep
    _locale.getpreferredencoding = _getpreferredencoding
    _os.isatty, _os.get_terminal_size = _os_isatty, _os_get_terminal_size
    _fcntl.ioctl = _fcntl_ioctl
    _termios.tcflush = _tty.tcflush = _tcflush
    for _n in ("tcdrain", "tcflow", "tcsendbreak"):
        setattr(_termios, _n, _tc_noop("termios." + _n))
        setattr(_tty, _n, getattr(_termios, _n))
    _time.perf_counter, _time.time_ns, _time.monotonic_ns = _perf_counter, _time_ns, _monotonic_ns
    if _R["os.pipe2"] is not None:
        _os.pipe2 = _os_pipe2
    _os.dup, _os.dup2 = _not_modelled("os.dup"), _not_modelled("os.dup2")
    if _R["os.eventfd"] is not None:
        _os.eventfd = _not_modelled("os.eventfd")
    if _R["termios.tcgetwinsize"] is not None:
        _termios.tcgetwinsize = _tty.tcgetwinsize = _tcgetwinsize
    if _R["select.poll"] is not None:
        _select.poll = _unsupported_poller("select.poll")
    if _R["select.epoll"] is not None:
        _select.epoll = _unsupported_poller("select.epoll")


_install_global()

import blessed  # noqa: E402
import blessed.terminal  # noqa: E402
import curtsies  # noqa: E402
import curtsies.input  # noqa: E402
import curtsies.termhelpers  # noqa: E402
import curtsies.window  # noqa: E402
import curtsies.events  # noqa: E402
import curtsies.formatstring  # noqa: E402
import curtsies.formatstringarray  # noqa: E402

_cf = _os.path.realpath(curtsies.__file__)
if not _cf.startswith(_os.path.realpath(REPO) + _os.sep):
    raise RuntimeError("curtsies imported from %s, not from %s" % (_cf, REPO))

logging.disable(logging.CRITICAL)

_WINSZ = blessed.terminal.WINSZ


def _height_and_width(self):
    t = _W.term
    return _WINSZ(ws_row=t.h, ws_col=t.w, ws_xpixel=None, ws_ypixel=None)


_term_templates = {}
_orig_term_init = blessed.Terminal.__init__


def _memo_term_init(self, kind=None, stream=None, force_styling=False, *a, **kw):
    """blessed.Terminal construction costs ~1.5 ms, almost all of it capability tables
    that depend only on (kind, force_styling) for a non-tty stream.  Build those once
    per process and per argument tuple and give every further instance its own shallow
    copy (fresh mutable containers, its own stream).  Everything curtsies uses on the
    object (capability strings, move, location, fullscreen) is real blessed code.
    CURTSIES_VERIF_NO_MEMO=1 turns this off; `check selftest determinism` compares both."""
    from .kernel import SimOut
    if a or kw or not isinstance(stream, SimOut):
        return _orig_term_init(self, kind, stream, force_styling, *a, **kw)
    key = (kind, force_styling)
    tpl = _term_templates.get(key)
    if tpl is None:
        _orig_term_init(self, kind, stream, force_styling)
        _term_templates[key] = dict(self.__dict__)
        return
    d = dict(tpl)
    d["_stream"] = stream
    d["errors"] = list(tpl["errors"])
    for k, v in tpl.items():
        if type(v) is dict and k.startswith("_") and not v:
            d[k] = {}
    d["_keyboard_buf"] = collections.deque()
    self.__dict__.update(d)


blessed.Terminal._height_and_width = _height_and_width
if not _os.environ.get("CURTSIES_VERIF_NO_MEMO"):
    blessed.Terminal.__init__ = _memo_term_init

_REPO_READ_SIZE = getattr(curtsies.input, "READ_SIZE", None)


def install():
    """kept for callers: everything is installed at import"""


_REPO_SYS = getattr(curtsies.input, "sys", None)


class _SysProxy:
    def __init__(self, platform):
        self.__dict__["platform"] = platform

    def __getattr__(self, name):
        return getattr(sys, name)


_FAKED = []


def set_platform(platform):
    """sys.platform as seen from curtsies.input (the macOS branch of Input.__enter__); None restores"""
    if _REPO_SYS is None:
        return
    curtsies.input.sys = _REPO_SYS if platform in (None, sys.platform) else _SysProxy(platform)
    # an interpreter whose sys.platform says darwin also has termios.VDSUSP (same index there as VSUSP + 1 here)
    if platform == "darwin" and not hasattr(_termios, "VDSUSP"):
        _termios.VDSUSP = _termios.VSUSP + 1
        _FAKED.append("VDSUSP")
    elif platform != "darwin" and _FAKED:
        for n in _FAKED:
            if hasattr(_termios, n):
                delattr(_termios, n)
        del _FAKED[:]


def _clear_library_caches():
    """One worker process hosts runs with different simulated locales, platforms and clocks - something no real
    process lives through.  A memo the library keeps per process (functools.lru_cache / cache on a module-level
    function or a method) is therefore emptied between runs; what a cache does within one run is judged as usual."""
    import sys as _sys
    for name, mod in list(_sys.modules.items()):
        if mod is None or not (name == "curtsies" or name.startswith("curtsies.")):
            continue
        for v in list(vars(mod).values()):
            cc = getattr(v, "cache_clear", None)
            if cc is not None and callable(cc):
                cc()
            elif isinstance(v, type) and getattr(v, "__module__", None) == name:
                for a in list(vars(v).values()):
                    a = getattr(a, "__func__", a)
                    a = getattr(a, "fget", a)
                    cc = getattr(a, "cache_clear", None)
                    if cc is not None and callable(cc):
                        cc()


_PLAIN = (type(None), bool, int, float, complex, str, bytes, tuple, frozenset)
_MODSTATE = {}


def _snapshot_module_state():
    """plain module-level data of the package as it is right after import (hand-written memos live there)"""
    import sys as _sys
    for name, mod in list(_sys.modules.items()):
        if mod is None or not (name == "curtsies" or name.startswith("curtsies.")):
            continue
        snap = {}
        for k, v in vars(mod).items():
            if k.startswith("__"):
                continue
            if isinstance(v, _PLAIN):
                snap[k] = ("v", v)
            elif type(v) in (list, dict, set):
                snap[k] = ("c", v, type(v)(v))
        _MODSTATE[name] = (mod, snap)


def _restore_module_state():
    """(see _clear_library_caches: no real process lives through several locales / platforms / kernels)"""
    for name, (mod, snap) in _MODSTATE.items():
        d = vars(mod)
        for k, ent in snap.items():
            cur = d.get(k, _MODSTATE)
            if ent[0] == "v":
                if cur is not ent[1] and not (cur == ent[1] and type(cur) is type(ent[1])):
                    d[k] = ent[1]
            else:
                obj, copy = ent[1], ent[2]
                if cur is not obj:
                    d[k] = obj
                if obj != copy:
                    obj.clear()
                    if isinstance(obj, list):
                        obj.extend(copy)
                    else:
                        obj.update(copy)
        for k in [k for k, v in d.items() if k not in snap and not k.startswith("__")
                  and (isinstance(v, _PLAIN) or type(v) in (list, dict, set))]:
            del d[k]


def bind(world, kernel, encoding="utf-8", read_size=None, locale_name=None):
    """Make `world` the target of every seam call (one run at a time per process).  locale_name: the
    spelling locale.getpreferredencoding() answers with (real locales say 'UTF-8', 'ANSI_X3.4-1968', ...)"""
    global _W, _K
    _W, _K = world, kernel
    _encoding[0] = locale_name or encoding
    _clear_library_caches()
    _restore_module_state()
    if _REPO_READ_SIZE is not None:
        # the read-size knob (only values the module's own assert allows); absent -> knob not applied
        curtsies.input.READ_SIZE = read_size if read_size is not None else _REPO_READ_SIZE


def unbind():
    global _W, _K
    _W = _K = None
    set_platform(None)
    if _REPO_READ_SIZE is not None:
        curtsies.input.READ_SIZE = _REPO_READ_SIZE


def repo_read_size():
    return _REPO_READ_SIZE


_snapshot_module_state()

# The cyclic garbage collector runs whenever an allocation counter crosses a threshold - at moments that depend
# on everything the process has allocated before.  Finalizers (weakref.finalize, __del__) of library objects
# would then fire at different points of a run in different processes: a source of nondeterminism like a clock.
# It is switched off; setup.finish() (and the checks, at defined points) collect explicitly.
import gc as _gc  # noqa: E402
_gc.disable()
