"""Reference terminal model (xterm semantics) -- the oracle's eyes.

A deliberately small VT/xterm interpreter.  It is the far end of ``out_stream``:
everything curtsies writes is fed to :meth:`TermModel.feed`, and the oracles read
the resulting cell grids, scrollback, cursor, pen and counters.

Semantics are the strict xterm ones (DESIGN.md 2.3): pending wrap in the last
column, EL in pending-wrap state erases the last column, CUP clamps, LF on the
bottom row scrolls (into scrollback on the main buffer), DECSC/DECRC save the
pending-wrap flag, ?1049 saves/restores the cursor and clears the alternate
buffer, erase uses the current background (BCE).

A sequence the model does not understand is recorded in ``unknown`` -- callers
classify the run UNMODELLED (harness error), never as a property violation.
"""

BOLD, DARK, ITALIC, UNDERLINE, BLINK, INVERT = 1, 2, 4, 8, 16, 32
STYLE_ON = {1: BOLD, 2: DARK, 3: ITALIC, 4: UNDERLINE, 5: BLINK, 7: INVERT}
STYLE_OFF = {22: BOLD | DARK, 23: ITALIC, 24: UNDERLINE, 25: BLINK, 27: INVERT}
STYLE_NAMES = {"bold": BOLD, "dark": DARK, "italic": ITALIC,
               "underline": UNDERLINE, "blink": BLINK, "invert": INVERT}

BLANK = (" ", None, None, 0)


def blank_row(w, bg=None):
    if bg is None:
        return [BLANK] * w
    return [(" ", None, bg, 0)] * w


class TermModel:
    def __init__(self, h, w, reply=None, onlcr=False, c1_reply=False):
        self.h = h
        self.w = w
        self.reply = reply            # callable(str) -> None: DSR answers
        self.onlcr = onlcr            # tty output post-processing NL -> CR NL
        self.c1_reply = c1_reply      # answer DSR with 8-bit CSI
        self.bufs = {"main": [blank_row(w) for _ in range(h)],
                     "alt": [blank_row(w) for _ in range(h)]}
        self.active = "main"
        self.scrollback = []          # list of row tuples, oldest first (main only)
        self.r = 0
        self.c = 0
        self.pending = False
        self.pen = (None, None, 0)    # fg, bg, style bits
        self.saved = {"main": None, "alt": None}   # DECSC slots per buffer
        self.cursor_visible = True
        self.top = 0                  # scroll region (DECSTBM), inclusive
        self.bot = h - 1
        self.scrolls = {"main": 0, "alt": 0}      # lines scrolled off the top
        self.sb_cleared = 0
        self.unknown = []
        self.nbytes = 0
        self.dsr_count = 0
        self.dsr_position = None      # scripted (row1, col1) to report instead of the cursor
        self.last_dsr = None          # zero-based (row, col) most recently reported
        self._st = 0                  # parser state: 0 ground, 1 esc, 2 csi, 3 esc-intermediate
        self._buf = ""
        self.autowrap = True          # DECAWM
        self.other_modes = set()      # further DEC private modes that are switched on
        self.last_graphic = None      # what REP (CSI Ps b) repeats; any control function forgets it
        self.el_in_pending = 0        # probe: EL executed while pending wrap
        self.wraps = 0                # probe: autowrap happened

    # ------------------------------------------------------------------ helpers
    @property
    def screen(self):
        return self.bufs[self.active]

    def snapshot_screen(self, which=None):
        b = self.bufs[which or self.active]
        return [tuple(row) for row in b]

    def document(self):
        """scrollback ++ main screen rows (the C07 'document')."""
        return list(self.scrollback) + [tuple(r) for r in self.bufs["main"]]

    def resize(self, h, w, junk_rng=None, cursor=None):
        """Terminal size change.  Both buffers are reshaped; with junk_rng every
        cell gets seeded junk (the property's 'whatever the resize left')."""
        for name in ("main", "alt"):
            old = self.bufs[name]
            new = []
            for i in range(h):
                if junk_rng is not None:
                    new.append([_junk_cell(junk_rng) for _ in range(w)])
                else:
                    row = list(old[i]) if i < len(old) else []
                    row = row[:w] + [BLANK] * (w - len(row))
                    new.append(row)
            self.bufs[name] = new
        self.h, self.w = h, w
        self.top, self.bot = 0, h - 1
        if cursor is not None:
            self.r, self.c = cursor
        self.r = min(self.r, h - 1)
        self.c = min(self.c, w - 1)
        self.pending = False

    # ------------------------------------------------------------------ feeding
    def feed(self, s):
        self.nbytes += len(s)
        for ch in s:
            st = self._st
            if st == 0:
                o = ord(ch)
                if o >= 0x20 and o != 0x7F and not (0x80 <= o <= 0x9F):
                    self._print(ch)
                elif ch == "\x1b":
                    self._st = 1
                    self._buf = ""
                else:
                    self._c0(ch)
            elif st == 1:
                if ch == "[":
                    self._st = 2
                    self._buf = ""
                elif ch in "()*+#% ":
                    self._st = 3
                    self._buf = ch
                elif ch == "\x1b":
                    self.unknown.append("ESC ESC")
                else:
                    self._st = 0
                    self._esc(ch)
            elif st == 2:
                o = ord(ch)
                if 0x40 <= o <= 0x7E:
                    self._st = 0
                    self._csi(self._buf, ch)
                elif 0x20 <= o <= 0x3F:
                    self._buf += ch
                elif ch == "\x1b":
                    self.unknown.append("CSI aborted by ESC")
                    self._st = 1
                else:
                    self._c0(ch)   # C0 inside CSI executes
            else:  # st == 3
                self._st = 0
                if self._buf in "()*+" and ch == "B":
                    pass  # designating US-ASCII: nothing changes
                elif self._buf in "()*+":
                    self.unknown.append("charset designation ESC %s %s" % (self._buf, ch))   # (e.g. DEC graphics)
                else:
                    self.unknown.append("ESC " + self._buf + ch)

    # ------------------------------------------------------------------ actions
    def _scroll_up(self, n=1):
        scr = self.screen
        for _ in range(n):
            line = scr.pop(self.top)
            if self.active == "main" and self.top == 0:
                self.scrollback.append(tuple(line))
            scr.insert(self.bot, blank_row(self.w, self.pen[1]))
            self.scrolls[self.active] += 1

    def _scroll_down(self, n=1):
        scr = self.screen
        for _ in range(n):
            scr.pop(self.bot)
            scr.insert(self.top, blank_row(self.w, self.pen[1]))

    def _index(self):
        # LF / IND
        self.pending = False
        if self.r == self.bot:
            self._scroll_up()
        elif self.r < self.h - 1:
            self.r += 1

    def _rindex(self):
        self.pending = False
        if self.r == self.top:
            self._scroll_down()
        elif self.r > 0:
            self.r -= 1

    def _print(self, ch):
        self.last_graphic = ch
        if self.pending:
            self.wraps += 1
            self.c = 0
            self.pending = False
            if self.r == self.bot:
                self._scroll_up()
            elif self.r < self.h - 1:
                self.r += 1
        fg, bg, stl = self.pen
        self.screen[self.r][self.c] = (ch, fg, bg, stl)
        if self.c >= self.w - 1:
            self.pending = self.autowrap      # (autowrap off: further characters overwrite the last column)
        else:
            self.c += 1

    def _c0(self, ch):
        self.last_graphic = None
        if ch == "\n" or ch == "\x0b" or ch == "\x0c":
            if self.onlcr and ch == "\n":
                self.c = 0
            self._index()
        elif ch == "\r":
            self.c = 0
            self.pending = False
        elif ch == "\b":
            self.pending = False
            if self.c > 0:
                self.c -= 1
        elif ch == "\t":
            self.pending = False
            self.c = min(self.w - 1, (self.c // 8 + 1) * 8)
        elif ch == "\x07" or ch == "\x00" or ch == "\x0e" or ch == "\x0f":
            pass
        else:
            self.unknown.append("C0/C1 %r" % ch)

    def _save(self):
        self.saved[self.active] = (self.r, self.c, self.pending, self.pen)

    def _restore(self):
        s = self.saved[self.active]
        if s is None:
            self.r, self.c, self.pending, self.pen = 0, 0, False, (None, None, 0)
        else:
            self.r, self.c, self.pending, self.pen = s
            self.r = min(self.r, self.h - 1)
            self.c = min(self.c, self.w - 1)

    def _esc(self, ch):
        if ch == "7":
            self._save()
        elif ch == "8":
            self._restore()
        elif ch == "D":
            self._index()
        elif ch == "E":
            self.c = 0
            self._index()
        elif ch == "M":
            self._rindex()
        elif ch == "c":
            self.unknown.append("RIS")
        elif ch in "=>":
            pass  # keypad modes
        else:
            self.unknown.append("ESC " + ch)

    def _erase_cells(self, row, a, b):
        """erase columns a..b-1 of row with current background"""
        bg = self.pen[1]
        cell = BLANK if bg is None else (" ", None, bg, 0)
        line = self.screen[row]
        for i in range(max(0, a), min(self.w, b)):
            line[i] = cell

    def _csi(self, params, final):
        if final != "b":
            self.last_graphic = None
        private = ""
        if params and params[0] in "?<=>":
            private, params = params[0], params[1:]
        inter = ""
        while params and 0x20 <= ord(params[-1]) <= 0x2F:
            inter = params[-1] + inter
            params = params[:-1]
        try:
            ps = [int(p) if p else None for p in params.split(";")] if params else []
        except ValueError:
            self.unknown.append("CSI " + private + params + inter + final)
            return
        if inter:
            if final == "q" and inter == " ":
                return  # DECSCUSR cursor style
            self.unknown.append("CSI " + private + params + inter + final)
            return

        def p(i, default):
            if i < len(ps) and ps[i] is not None and ps[i] != 0:
                return ps[i]
            return default

        def p0(i, default=0):
            if i < len(ps) and ps[i] is not None:
                return ps[i]
            return default

        if private == "?":
            if final in "hl":
                on = final == "h"
                for m in ps:
                    if m == 25:
                        self.cursor_visible = on
                    elif m == 1049:
                        self._alt(on, save=True, clear=True)
                    elif m == 1047:
                        self._alt(on, save=False, clear=not on)
                    elif m == 47:
                        self._alt(on, save=False, clear=False)
                    elif m == 1048:
                        if on:
                            self._save()
                        else:
                            self._restore()
                    elif m == 7:
                        self.autowrap = on
                        if not on:
                            self.pending = False
                    elif m in (1, 12, 1000, 1002, 1003, 1004, 1005, 1006, 1015, 2004, 2026):
                        # (application cursor keys, blinking, mouse reporting, bracketed paste, synchronised output:
                        # no effect on what the screen shows, but it is terminal state that a program may leave behind)
                        if on:
                            self.other_modes.add(m)
                        else:
                            self.other_modes.discard(m)
                    else:
                        self.unknown.append("CSI ?%r%s" % (m, final))
                return
            self.unknown.append("CSI ?" + params + final)
            return
        if private:
            if final in "cmu":
                return
            self.unknown.append("CSI " + private + params + final)
            return

        if final == "m":
            self._sgr(ps)
        elif final in "Hf":
            self.r = min(self.h, p(0, 1)) - 1
            self.c = min(self.w, p(1, 1)) - 1
            self.pending = False
        elif final == "G" or final == "`":
            self.c = min(self.w, p(0, 1)) - 1
            self.pending = False
        elif final == "d":
            self.r = min(self.h, p(0, 1)) - 1
            self.pending = False
        elif final == "A":
            self.r = max(self.top if self.r >= self.top else 0, self.r - p(0, 1))
            self.pending = False
        elif final in "Be":
            self.r = min(self.bot if self.r <= self.bot else self.h - 1, self.r + p(0, 1))
            self.pending = False
        elif final in "Ca":
            self.c = min(self.w - 1, self.c + p(0, 1))
            self.pending = False
        elif final == "D":
            self.c = max(0, self.c - p(0, 1))
            self.pending = False
        elif final == "E":
            self.r = min(self.bot if self.r <= self.bot else self.h - 1, self.r + p(0, 1))
            self.c = 0
            self.pending = False
        elif final == "F":
            self.r = max(self.top if self.r >= self.top else 0, self.r - p(0, 1))
            self.c = 0
            self.pending = False
        elif final == "K":
            mode = p0(0)
            if self.pending:
                self.el_in_pending += 1
            if mode == 0:
                self._erase_cells(self.r, self.c, self.w)
            elif mode == 1:
                self._erase_cells(self.r, 0, self.c + 1)
            elif mode == 2:
                self._erase_cells(self.r, 0, self.w)
            else:
                self.unknown.append("CSI %sK" % params)
        elif final == "J":
            mode = p0(0)
            if mode == 0:
                self._erase_cells(self.r, self.c, self.w)
                for i in range(self.r + 1, self.h):
                    self._erase_cells(i, 0, self.w)
            elif mode == 1:
                for i in range(0, self.r):
                    self._erase_cells(i, 0, self.w)
                self._erase_cells(self.r, 0, self.c + 1)
            elif mode == 2:
                for i in range(self.h):
                    self._erase_cells(i, 0, self.w)
            elif mode == 3:
                self.sb_cleared += 1
                self.scrollback = []
            else:
                self.unknown.append("CSI %sJ" % params)
        elif final == "L":
            if self.top <= self.r <= self.bot:
                for _ in range(min(p(0, 1), self.bot - self.r + 1)):
                    self.screen.pop(self.bot)
                    self.screen.insert(self.r, blank_row(self.w, self.pen[1]))
                self.c = 0
                self.pending = False
        elif final == "M":
            if self.top <= self.r <= self.bot:
                for _ in range(min(p(0, 1), self.bot - self.r + 1)):
                    self.screen.pop(self.r)
                    self.screen.insert(self.bot, blank_row(self.w, self.pen[1]))
                self.c = 0
                self.pending = False
        elif final == "@":
            n = min(p(0, 1), self.w - self.c)
            line = self.screen[self.r]
            bg = self.pen[1]
            cell = BLANK if bg is None else (" ", None, bg, 0)
            line[self.c:self.c] = [cell] * n
            del line[self.w:]
            self.pending = False
        elif final == "P":
            n = min(p(0, 1), self.w - self.c)
            line = self.screen[self.r]
            bg = self.pen[1]
            cell = BLANK if bg is None else (" ", None, bg, 0)
            del line[self.c:self.c + n]
            line.extend([cell] * n)
            self.pending = False
        elif final == "X":
            self._erase_cells(self.r, self.c, self.c + p(0, 1))
            self.pending = False
        elif final == "b":
            # REP: repeat the preceding graphic character (terminfo `rep`; xterm: only right after a printed character)
            if self.last_graphic is not None:
                for _ in range(min(p(0, 1), 65535)):
                    self._print(self.last_graphic)
            return
        elif final == "S":
            self._scroll_up(min(p(0, 1), self.h))
        elif final == "T":
            self._scroll_down(min(p(0, 1), self.h))
        elif final == "r":
            t, b = p(0, 1), p(1, self.h)
            if t < b <= self.h:
                self.top, self.bot = t - 1, b - 1
                self.r, self.c, self.pending = 0, 0, False
        elif final == "s":
            self._save()
        elif final == "u":
            self._restore()
        elif final == "n":
            if p0(0) == 6:
                self.dsr_count += 1
                if self.dsr_position is not None:
                    r1, c1 = self.dsr_position
                else:
                    r1, c1 = self.r + 1, self.c + 1
                self.last_dsr = (r1 - 1, c1 - 1)
                if self.reply is not None:
                    csi = "\x9b" if self.c1_reply else "\x1b["
                    self.reply("%s%d;%dR" % (csi, r1, c1))
            elif p0(0) == 5:
                if self.reply is not None:
                    self.reply("\x1b[0n")
            else:
                self.unknown.append("CSI %sn" % params)
        elif final == "t":
            pass  # window ops (title stack push/pop ...)
        elif final == "c":
            pass  # DA -- no reply modelled
        elif final in "hl":
            for m in ps:
                if m not in (4, 20):
                    self.unknown.append("CSI %r%s" % (m, final))
                elif final == "h":
                    self.unknown.append("mode %r set" % m)
        else:
            self.unknown.append("CSI " + params + final)

    def _alt(self, on, save, clear):
        if on:
            if self.active == "alt":
                return
            if save:
                self._save()
            self.active = "alt"
            if clear:
                self.bufs["alt"] = [blank_row(self.w) for _ in range(self.h)]
        else:
            if self.active == "main":
                if save:
                    self._restore()
                return
            if clear and not save:
                self.bufs["alt"] = [blank_row(self.w) for _ in range(self.h)]
            self.active = "main"
            if save:
                self._restore()
        self.top, self.bot = 0, self.h - 1

    def _sgr(self, ps):
        fg, bg, stl = self.pen
        if not ps:
            ps = [0]
        i = 0
        while i < len(ps):
            n = ps[i] or 0
            if n == 0:
                fg, bg, stl = None, None, 0
            elif n in STYLE_ON:
                stl |= STYLE_ON[n]
            elif n in STYLE_OFF:
                stl &= ~STYLE_OFF[n]
            elif n == 21:
                stl |= UNDERLINE      # (xterm: doubly underlined; it does not switch bold off)
            elif 30 <= n <= 37:
                fg = n
            elif n == 39:
                fg = None
            elif 40 <= n <= 47:
                bg = n
            elif n == 49:
                bg = None
            elif 90 <= n <= 97 or 100 <= n <= 107:
                if n < 100:
                    fg = n
                else:
                    bg = n
            elif n in (38, 48):
                # extended colours: 38;5;n or 38;2;r;g;b
                if i + 1 < len(ps) and ps[i + 1] == 5 and i + 2 < len(ps):
                    val = ("idx", ps[i + 2])
                    i += 2
                elif i + 1 < len(ps) and ps[i + 1] == 2 and i + 4 < len(ps):
                    val = ("rgb", ps[i + 2], ps[i + 3], ps[i + 4])
                    i += 4
                else:
                    self.unknown.append("SGR %r" % (ps,))
                    break
                if n == 38:
                    fg = val
                else:
                    bg = val
            else:
                self.unknown.append("SGR %r" % n)
            i += 1
        self.pen = (fg, bg, stl)


_JUNK_CHARS = "#@%&*+=?!XYZxyz0123456789~^"


def _junk_cell(rng):
    if rng.random() < 0.25:
        return BLANK
    ch = rng.choice(_JUNK_CHARS)
    fg = rng.choice((None, None, 31, 32, 34, 36))
    bg = rng.choice((None, None, 41, 43, 45, 47))
    stl = rng.choice((0, 0, BOLD, UNDERLINE, INVERT, BLINK | DARK))
    return (ch, fg, bg, stl)


def render_rows(rows, w=None):
    """debug helper: text of rows"""
    return ["".join(c[0] for c in r) for r in rows]
