"""Plans: seed derivation, JSON replay files, delta-debugging minimisation."""

import hashlib
import json
import os


def seed_for(prop, tier, base, i):
    """seed_i = hash64(property, tier, VERIF_SEED, i)"""
    h = hashlib.sha256(("%s|%s|%d|%d" % (prop, tier, base, i)).encode()).digest()
    return int.from_bytes(h[:8], "big")


def dumps(plan):
    return json.dumps(plan, sort_keys=True, separators=(",", ":"))


def save(plan, path):
    os.makedirs(os.path.dirname(path), exist_ok=True)
    tmp = path + ".tmp"
    with open(tmp, "w") as f:
        json.dump(plan, f, sort_keys=True, indent=1)
        f.write("\n")
    os.replace(tmp, path)


def load(path):
    with open(path) as f:
        return json.load(f)


def ddmin_list(items, test, budget):
    """Classic ddmin over a list.  test(candidate_list) -> True when the failure
    persists.  budget is a mutable [remaining test executions]."""
    n = 2
    items = list(items)
    while len(items) >= 1 and budget[0] > 0:
        if len(items) == 1:
            budget[0] -= 1
            if test([]):
                return []
            return items
        chunk = max(1, len(items) // n)
        subsets = [items[i:i + chunk] for i in range(0, len(items), chunk)]
        reduced = False
        # try complements (remove one chunk)
        for i in range(len(subsets)):
            if budget[0] <= 0:
                return items
            cand = [x for j, s in enumerate(subsets) if j != i for x in s]
            budget[0] -= 1
            if test(cand):
                items = cand
                n = max(n - 1, 2)
                reduced = True
                break
        if not reduced:
            if chunk == 1:
                break
            n = min(len(items), n * 2)
    return items


def minimise(plan, fails, simplifiers=(), list_keys=("steps",), budget=400):
    """Shrink `plan` while fails(plan) (same violation signature) stays true.

    list_keys: keys of plan holding lists that ddmin may drop elements from.
    simplifiers: callables plan -> iterable of simpler candidate plans
    (integer shrinking, row simplification ...).  Every candidate is re-executed;
    only failing candidates are kept, so this is never unsound."""
    b = [budget]
    cur = plan
    changed = True
    rounds = 0
    while changed and b[0] > 0 and rounds < 6:
        rounds += 1
        changed = False
        for key in list_keys:
            lst = _get_path(cur, key)
            if not lst:
                continue

            def t(cand, key=key):
                p = _with_path(cur, key, cand)
                return fails(p)

            new = ddmin_list(lst, t, b)
            if len(new) < len(lst):
                cur = _with_path(cur, key, new)
                changed = True
        for simp in simplifiers:
            progress = True
            while progress and b[0] > 0:
                progress = False
                for cand in simp(cur):
                    if b[0] <= 0:
                        break
                    b[0] -= 1
                    if fails(cand):
                        cur = cand
                        changed = True
                        progress = True
                        break
    return cur


def _get_path(d, key):
    for k in key.split("."):
        if d is None:
            return None
        if isinstance(d, dict):
            d = d.get(k)
        else:
            i = int(k)
            d = d[i] if i < len(d) else None
    return d


def _with_path(d, key, value):
    ks = key.split(".")
    d = json.loads(json.dumps(d))
    cur = d
    for k in ks[:-1]:
        cur = cur[k] if isinstance(cur, dict) else cur[int(k)]
    if isinstance(cur, dict):
        cur[ks[-1]] = value
    else:
        cur[int(ks[-1])] = value
    return d


def clone(d):
    return json.loads(json.dumps(d))
