"""Deterministic simulation world for curtsies (see /verif/DESIGN.md section 2)."""
