"""Simulated kernel: fd table, tty (input queue, termios attributes, status flags),
pipes, select, fcntl, termios, signals with wake-up fd, and the in/out streams
handed to curtsies.  No real fd, clock or signal is touched.  DESIGN.md 2.4.
"""

import errno
import os as _os
import signal as _signal
import termios as _termios
import tty as _tty

from .world import HarnessError

FD_BASE = 1000
NCCS = 32

# a plausible "sane" tty (values of a Linux pty after `stty sane`)
SANE_IFLAG = _termios.ICRNL | _termios.IXON | getattr(_termios, "IUTF8", 0)
SANE_OFLAG = _termios.OPOST | _termios.ONLCR
SANE_CFLAG = _termios.CS8 | _termios.CREAD | getattr(_termios, "HUPCL", 0)
SANE_LFLAG = (_termios.ISIG | _termios.ICANON | _termios.ECHO | _termios.ECHOE |
              _termios.ECHOK | _termios.IEXTEN | getattr(_termios, "ECHOCTL", 0) |
              getattr(_termios, "ECHOKE", 0))
SANE_CC = [3, 28, 127, 21, 4, 0, 1, 0, 17, 19, 26, 0, 18, 15, 23, 22] + [0] * 16


def sane_attrs():
    return [SANE_IFLAG, SANE_OFLAG, SANE_CFLAG, SANE_LFLAG,
            _termios.B38400, _termios.B38400, list(SANE_CC)]


def _sim_oserror(code, msg):
    """an OSError the simulated kernel raises on purpose (as opposed to one from the real OS, which during a
    simulated run means an un-seamed system call was made on a simulated descriptor)"""
    e = OSError(code, msg)
    e.sim = True
    return e


class Tty:
    kind = "tty"

    def readable_len(self):
        """bytes a read may take now: in canonical mode (ICANON) only complete lines"""
        if self.attrs[3] & _termios.ICANON:
            i = self.inq.rfind(b"\n")
            return i + 1
        return len(self.inq)

    def __init__(self, attrs=None, flags=None):
        self.inq = bytearray()
        self.attrs = attrs if attrs is not None else sane_attrs()
        self.flags = _os.O_RDWR if flags is None else flags
        self.read_count = 0
        self.tcset_count = 0
        self.last_arrival = 0.0


class Pipe:
    def __init__(self, cap):
        self.buf = bytearray()
        self.cap = cap
        self.r_open = True
        self.w_open = True


class PipeEnd:
    def __init__(self, pipe, kind):
        self.pipe = pipe
        self.kind = kind      # 'pr' | 'pw'
        self.flags = _os.O_RDONLY if kind == "pr" else _os.O_WRONLY


class Kernel:
    def __init__(self, world, pipe_cap=65536):
        self.w = world
        self.fds = {}
        self.pipe_cap = pipe_cap
        self.opened = 0
        self.closed = 0
        self.read_faults = {}     # fd -> {read ordinal: ('eio',) | ('cap', n)}
        self.on_tty_read = None   # observer(fd, data) of every successful tty read
        self.sig = Signals(self)

    # ------------------------------------------------------------- fd table
    def _alloc(self, obj, fd=None):
        # lowest free descriptor, like the kernel (from FD_BASE up, so that a simulated descriptor can never be
        # mistaken for a real one of this process); fd=0: the stream is "standard input"
        if fd is None:
            fd = FD_BASE
            while fd in self.fds:
                fd += 1
        self.fds[fd] = obj
        self.opened += 1
        obj.serial = self.opened
        return fd

    def open_tty(self, attrs=None, flags=None, fd=None):
        t = Tty(attrs, flags)
        return self._alloc(t, fd), t

    def _get(self, fd):
        if not isinstance(fd, int) or isinstance(fd, bool):
            raise TypeError("an integer is required (got type %s)" % type(fd).__name__)
        o = self.fds.get(fd)
        if o is None:
            if 0 <= fd < FD_BASE:
                raise HarnessError("descriptor %d was not issued by the simulated kernel "
                                   "(an un-seamed call such as os.dup/socketpair/eventfd created it)" % fd)
            raise _sim_oserror(errno.EBADF, "Bad file descriptor")
        return o

    def open_fds(self):
        return sorted(self.fds)

    def open_files(self):
        """open descriptors by identity ("fd<number>#<serial>"): descriptor numbers are recycled, so accounting for
        who holds what over several uses cannot go by number"""
        return ["fd%d#%d" % (fd, self.fds[fd].serial) for fd in sorted(self.fds)]

    # ------------------------------------------------------------- syscalls
    def pipe(self):
        self.w.seam("pipe")
        p = Pipe(self.pipe_cap)
        r = self._alloc(PipeEnd(p, "pr"))
        wfd = self._alloc(PipeEnd(p, "pw"))
        self.w.log.add("pipe", r, wfd)
        return r, wfd

    def close(self, fd):
        self.w.seam("close")
        o = self._get(fd)
        del self.fds[fd]
        self.closed += 1
        if isinstance(o, PipeEnd):
            if o.kind == "pr":
                o.pipe.r_open = False
            else:
                o.pipe.w_open = False
        self.w.log.add("close", fd)

    def set_blocking(self, fd, blocking):
        self.w.seam("set_blocking")
        o = self._get(fd)
        if blocking:
            o.flags &= ~_os.O_NONBLOCK
        else:
            o.flags |= _os.O_NONBLOCK
        self.w.log.add("set_blocking", fd, bool(blocking))

    def get_blocking(self, fd):
        o = self._get(fd)
        return not (o.flags & _os.O_NONBLOCK)

    def readable(self, fd):
        o = self.fds.get(fd)
        if o is None:
            return True   # select would fail with EBADF: "ready" so the caller sees it
        if o.kind == "tty":
            if not (o.attrs[3] & _termios.ICANON):
                # n_tty_poll: with MIN > 0 and TIME == 0 the tty is readable once MIN characters are there
                vmin, vtime = o.attrs[6][_termios.VMIN], o.attrs[6][_termios.VTIME]
                if vmin > 1 and vtime == 0:
                    return len(o.inq) >= vmin
            return o.readable_len() > 0
        if o.kind == "pr":
            return len(o.pipe.buf) > 0 or not o.pipe.w_open
        return False

    def read(self, fd, n):
        self.w.seam("read")
        o = self._get(fd)
        if o.kind == "pw":
            raise _sim_oserror(errno.EBADF, "Bad file descriptor")
        if o.kind == "tty":
            o.read_count += 1
            flt = self.read_faults.get(fd)
            f = flt.pop(o.read_count, None) if flt else None
            if f is not None and f[0] == "eio":
                self.w.fault("read_eio")
                self.w.log.add("read", fd, n, "EIO")
                raise _sim_oserror(errno.EIO, "Input/output error")
            buf = o.inq
        else:
            f = None
            buf = o.pipe.buf
        def avail():
            return o.readable_len() if o.kind == "tty" else len(buf)
        if o.kind == "tty" and not (o.attrs[3] & _termios.ICANON):
            vmin, vtime = o.attrs[6][_termios.VMIN], o.attrs[6][_termios.VTIME]
            if (vmin, vtime) != (1, 0):
                data = self._read_noncanon(fd, o, n, vmin, vtime, f)
                if data and self.on_tty_read is not None:
                    self.on_tty_read(fd, data)
                return data
        if not avail():
            if o.kind == "pr" and not o.pipe.w_open:
                self.w.log.add("read", fd, n, b"")
                return b""
            if o.flags & _os.O_NONBLOCK:
                self.w.log.add("read", fd, n, "EAGAIN")
                raise BlockingIOError(errno.EAGAIN, "Resource temporarily unavailable")
            self.w.block_until(lambda: avail() > 0 or (o.kind == "pr" and not o.pipe.w_open),
                               None, "read")
            if not avail():
                self.w.log.add("read", fd, n, b"")
                return b""
        n = min(n, avail())
        if f is not None and f[0] == "cap" and f[1] < min(n, len(buf)):
            n = max(1, f[1])
            self.w.fault("short_read")
        data = bytes(buf[:n])
        del buf[:n]
        self.w.log.add("read", fd, n, data)
        if o.kind == "tty" and self.on_tty_read is not None:
            self.on_tty_read(fd, data)
        return data

    def _read_noncanon(self, fd, o, n, vmin, vtime, f):
        """non-canonical tty read with MIN/TIME other than 1/0 (termios(3), Linux n_tty_read)"""
        buf = o.inq
        nonblock = bool(o.flags & _os.O_NONBLOCK)
        want = max(1, min(vmin, n))
        self.w.probe("read_min_time")
        if vmin == 0 and vtime == 0:
            pass                                        # polling read: whatever is there, possibly nothing
        elif len(buf) < want:
            if nonblock:
                if not buf:
                    self.w.log.add("read", fd, n, "EAGAIN")
                    raise BlockingIOError(errno.EAGAIN, "Resource temporarily unavailable")
            elif vmin == 0:
                self.w.block_until(lambda: len(buf) > 0, self.w.now + vtime / 10.0, "read")
            elif vtime == 0:
                self.w.block_until(lambda: len(buf) >= want, None, "read")
            else:
                # inter-byte timer: starts with the first byte, restarts with every further arrival
                self.w.block_until(lambda: len(buf) > 0, None, "read")
                while len(buf) < want:
                    if not self.w.block_until(lambda: len(buf) >= want,
                                              max(self.w.now, o.last_arrival) + vtime / 10.0, "read"):
                        if self.w.now >= o.last_arrival + vtime / 10.0:
                            break
        k = min(n, len(buf))
        if f is not None and f[0] == "cap" and 0 < f[1] < k:
            k = f[1]
            self.w.fault("short_read")
        data = bytes(buf[:k])
        del buf[:k]
        self.w.log.add("read", fd, n, data)
        return data

    def write(self, fd, data):
        self.w.seam("write")
        o = self._get(fd)
        if o.kind != "pw":
            if o.kind == "tty":
                # writing to the tty fd: output side, not modelled through fds
                raise HarnessError("os.write to the simulated tty is not modelled")
            raise _sim_oserror(errno.EBADF, "Bad file descriptor")
        data = bytes(data)
        p = o.pipe
        if not p.r_open:
            raise BrokenPipeError(errno.EPIPE, "Broken pipe")
        need = len(data)
        if need > p.cap:
            p.cap = need          # (the capacity knob never makes a single write impossible)
        if p.cap - len(p.buf) < need:
            if o.flags & _os.O_NONBLOCK:
                self.w.log.add("write", fd, "EAGAIN")
                raise BlockingIOError(errno.EAGAIN, "Resource temporarily unavailable")
            self.w.probe("pipe_full_block")
            self.w.block_until(lambda: p.cap - len(p.buf) >= need or not p.r_open, None, "write")
            if not p.r_open:
                raise BrokenPipeError(errno.EPIPE, "Broken pipe")
        p.buf.extend(data)
        self.w.log.add("write", fd, len(data))
        return len(data)

    def select(self, rlist, wlist, xlist, timeout=None):
        self.w.seam("select")
        rl = []
        for x in rlist:
            fd = x if isinstance(x, int) else x.fileno()
            rl.append((x, fd))
        if wlist or any((x if isinstance(x, int) else x.fileno()) not in [fd for _, fd in rl] for x in xlist):
            raise HarnessError("select with a write set, or an except set beyond the read set, is not modelled")
        # (an except set that repeats members of the read set: a tty or pipe never has an exceptional condition)
        for x, fd in rl:
            if fd not in self.fds:
                if isinstance(fd, int) and 0 <= fd < FD_BASE:
                    raise HarnessError("select on descriptor %d, which the simulated kernel did not issue" % fd)
                raise _sim_oserror(errno.EBADF, "Bad file descriptor")
        if timeout is not None:
            if not isinstance(timeout, (int, float)):
                raise TypeError("timeout must be a float or None")
            if timeout < 0:
                raise ValueError("timeout must be non-negative")
        readable = self.readable
        ready = [x for x, fd in rl if readable(fd)]
        if not ready and (timeout is None or timeout > 0):
            deadline = None if timeout is None else self.w.now + timeout
            self.w.probe("select_blocked")
            ok = self.w.block_until(lambda: any(readable(fd) for _, fd in rl), deadline, "select")
            ready = [x for x, fd in rl if readable(fd)]
            if not ok and not ready:
                self.w.probe("select_timeout")
        if len(ready) > 1:
            self.w.fault("several_ready")
        self.w.log.add("select", [fd for _, fd in rl], timeout, [x if isinstance(x, int) else x.fileno() for x in ready])
        return ready, [], []

    # ------------------------------------------------------------- fcntl / termios
    def fcntl(self, fd, cmd, arg=0):
        import fcntl as _fcntl
        self.w.seam("fcntl")
        if not isinstance(fd, int):
            fd = fd.fileno()
        o = self._get(fd)
        if cmd == _fcntl.F_GETFL:
            self.w.log.add("fcntl", fd, "GETFL", o.flags)
            return o.flags
        if cmd == _fcntl.F_SETFL:
            if not isinstance(arg, int):
                raise TypeError("fcntl F_SETFL needs an int")
            # the kernel only lets F_SETFL change these
            settable = _os.O_APPEND | _os.O_NONBLOCK | getattr(_os, "O_ASYNC", 0) | \
                getattr(_os, "O_DIRECT", 0) | getattr(_os, "O_NOATIME", 0)
            o.flags = (o.flags & ~settable) | (arg & settable)
            self.w.log.add("fcntl", fd, "SETFL", arg)
            return 0
        raise HarnessError("fcntl cmd %r not modelled" % (cmd,))

    def _tty_of(self, fd):
        if not isinstance(fd, int):
            if not hasattr(fd, "fileno"):
                raise TypeError("argument must be an int, or have a fileno() method")
            fd = fd.fileno()
        o = self._get(fd)
        if o.kind != "tty":
            e = _termios.error(errno.ENOTTY, "Inappropriate ioctl for device")
            e.sim = True
            raise e
        return fd, o

    def tcgetattr(self, fd):
        self.w.seam("tcgetattr")
        fd, o = self._tty_of(fd)
        a = o.attrs
        canon = bool(a[3] & _termios.ICANON)
        cc = []
        for i, v in enumerate(a[6]):
            if not canon and i in (_termios.VMIN, _termios.VTIME):
                cc.append(v)
            else:
                cc.append(bytes([v]))
        out = [a[0], a[1], a[2], a[3], a[4], a[5], cc]
        self.w.log.add("tcgetattr", fd, a[0], a[1], a[2], a[3], tuple(a[6]))
        return out

    def tcsetattr(self, fd, when, attrs):
        self.w.seam("tcsetattr")
        fd, o = self._tty_of(fd)
        if when not in (_termios.TCSANOW, _termios.TCSADRAIN, _termios.TCSAFLUSH):
            raise _termios.error(errno.EINVAL, "Invalid argument")
        if not isinstance(attrs, list) or len(attrs) != 7:
            raise TypeError("tcsetattr, arg 3: must be 7 element list")
        cc_in = attrs[6]
        if not isinstance(cc_in, list) or len(cc_in) != NCCS:
            raise TypeError("tcsetattr: attributes[6] must be %d element list" % NCCS)
        cc = []
        for v in cc_in:
            if isinstance(v, bytes) and len(v) == 1:
                cc.append(v[0])
            elif isinstance(v, int) and not isinstance(v, bool):
                cc.append(v & 0xFF)
            else:
                raise TypeError("tcsetattr: elements of attributes must be characters or integers")
        for v in attrs[:6]:
            if not isinstance(v, int):
                raise TypeError("tcsetattr: attributes must be integers")
        o.attrs = [attrs[0], attrs[1], attrs[2], attrs[3], attrs[4], attrs[5], cc]
        o.tcset_count += 1
        if when == _termios.TCSAFLUSH:
            del o.inq[:]
        self.w.log.add("tcsetattr", fd, when, attrs[0], attrs[1], attrs[2], attrs[3], tuple(cc))

    def setcbreak(self, fd, when=_termios.TCSAFLUSH):
        # tty.setcbreak of Python 3.12, with the real cfmakecbreak
        mode = self.tcgetattr(fd)
        new = list(mode)
        _tty.cfmakecbreak(new)
        self.tcsetattr(fd, when, new)
        return mode

    def setraw(self, fd, when=_termios.TCSAFLUSH):
        mode = self.tcgetattr(fd)
        new = list(mode)
        _tty.cfmakeraw(new)
        self.tcsetattr(fd, when, new)
        return mode

    def tcflush(self, fd, queue):
        self.w.seam("tcflush")
        fd, o = self._tty_of(fd)
        if queue in (_termios.TCIFLUSH, _termios.TCIOFLUSH):
            del o.inq[:]
        self.w.log.add("tcflush", fd, queue)

    def isatty(self, fd):
        o = self.fds.get(fd)
        return o is not None and o.kind == "tty"

    # ------------------------------------------------------------- environment side
    def arrive(self, fd, data):
        """bytes typed by the user / sent by the terminal arrive on the tty"""
        o = self.fds.get(fd)
        if o is None or o.kind != "tty":
            raise HarnessError("arrival on a closed/non tty fd")
        o.inq.extend(data)
        o.last_arrival = self.w.now
        if o.attrs[3] & _termios.ECHO:
            # the line discipline echoes what is typed (control characters as ^X with ECHOCTL): this is what a
            # terminal's answer to a query looks like on the screen when the tty was not put into cbreak first
            term = getattr(self.w, "term", None)
            if term is not None:
                ctl = bool(o.attrs[3] & getattr(_termios, "ECHOCTL", 0))
                out = []
                for b in data:
                    if b in (10, 13):
                        out.append("\r\n")
                    elif b < 32 and ctl and b != 9:
                        out.append("^" + chr(b + 64))
                    elif b < 128:
                        out.append(chr(b))
                    else:
                        out.append("?")
                term.feed("".join(out))
                self.w.log.add("echo", len(data))


# seam calls inside which a handler that raises may be run (CPython's
# EINTR-then-handler path); everywhere else only handlers that return normally
RAISING_SEAMS = frozenset(("select", "read", "in.read"))


class Signals:
    """signal.signal / getsignal / set_wakeup_fd and delivery to the simulated
    main thread.  Delivery = write signum to the wake-up fd (non-blocking, dropped
    when full) then call the Python-level handler -- one atomic step."""

    def __init__(self, kernel):
        self.k = kernel
        self.w = kernel.w
        self.handlers = {_signal.SIGINT: _signal.default_int_handler}
        self.wakeup_fd = -1
        self.pending = []
        self.blocked = set()        # the main thread's signal mask (signal.pthread_sigmask)
        self.delivered = 0
        self.in_handler = 0
        self.raising_ok = False     # True while inside a blocking seam call of main
        self.w.on_main_seam = self._on_main_seam
        self.w.main_wake = self._main_wake
        self.w.on_main_line = self._on_main_line
        self.is_main = lambda: self.w.current is self.w.main
        self.app_is_main = True     # (kept for callers; non-main applications run on a real spawned thread)

    def _check_main(self, what):
        if not (self.is_main() and self.app_is_main):
            raise ValueError("%s only works in main thread of the main interpreter" % what)

    def signal(self, signum, handler):
        self.w.seam("signal")
        self._check_main("signal")
        if not (callable(handler) or handler in (_signal.SIG_IGN, _signal.SIG_DFL)):
            raise TypeError("signal handler must be signal.SIG_IGN, signal.SIG_DFL, or a callable object")
        old = self.handlers.get(signum, _signal.SIG_DFL)
        self.handlers[signum] = handler
        self.w.log.add("signal", int(signum), _hname(handler))
        return old

    def getsignal(self, signum):
        self.w.seam("getsignal")
        return self.handlers.get(signum, _signal.SIG_DFL)

    def set_wakeup_fd(self, fd, *, warn_on_full_buffer=True):
        self.w.seam("set_wakeup_fd")
        self._check_main("set_wakeup_fd")
        if fd != -1:
            o = self.k.fds.get(fd)
            if o is None:
                if isinstance(fd, int) and 0 <= fd < FD_BASE:
                    raise HarnessError("set_wakeup_fd(%d): not a descriptor of the simulated kernel" % fd)
                raise _sim_oserror(errno.EBADF, "Bad file descriptor")
            if not (o.flags & _os.O_NONBLOCK):
                raise ValueError("the fd %i must be in non-blocking mode" % fd)
        old = self.wakeup_fd
        self.wakeup_fd = fd
        self.w.log.add("set_wakeup_fd", fd, old)
        return old

    # delivery ---------------------------------------------------------------
    def post(self, signum):
        """environment: a signal is sent to the process.  Standard signals do not queue: while one of a number
        is pending, further ones of that number are merged into it."""
        signum = int(signum)
        if signum in self.pending:
            self.w.probe("signal_coalesced")
            return
        self.pending.append(signum)

    def _returns_normally(self, signum):
        h = self.handlers.get(signum, _signal.SIG_DFL)
        if h is _signal.default_int_handler:
            return False
        return getattr(h, "sim_raises", False) is False

    def _deliverable(self):
        if not self.blocked:
            return self.pending
        return [s for s in self.pending if s not in self.blocked]

    def pthread_sigmask(self, how, mask):
        """the calling thread's signal mask.  Python-level handlers only ever run in the main thread, so only its
        mask matters here: a blocked signal stays pending (and its wake-up byte unwritten) until it is unblocked,
        and is then delivered before the call returns (signal.pthread_sigmask checks for signals itself)."""
        self.w.seam("pthread_sigmask")
        mask = set(int(x) for x in mask)
        if not (self.is_main() and self.app_is_main):
            return set()
        old = set(self.blocked)
        if how == _signal.SIG_BLOCK:
            self.blocked |= mask
        elif how == _signal.SIG_UNBLOCK:
            self.blocked -= mask
        elif how == _signal.SIG_SETMASK:
            self.blocked = set(mask)
        else:
            raise _sim_oserror(errno.EINVAL, "Invalid argument")
        self.blocked -= {int(_signal.SIGKILL), int(_signal.SIGSTOP)}
        self.w.log.add("sigmask", sorted(self.blocked))
        self.w.probe("signal_mask_changed")
        if self._deliverable() and not self.in_handler:
            self.deliver_pending(allow_raising=True)
        return set(_signal.Signals(x) for x in old)

    def _main_wake(self, blocked_in):
        d = self._deliverable()
        if not d or not self.app_is_main:
            return False
        return blocked_in in RAISING_SEAMS or self._returns_normally(d[0])

    def _on_main_line(self):
        if self.pending and self.app_is_main and not self.in_handler:
            self.deliver_pending(allow_raising=False)

    def _on_main_seam(self, name, blocking):
        # a handler that raises (KeyboardInterrupt) runs only where the thread is actually blocked in
        # select / read -- "SIGINT at an arbitrary moment of a blocked request"; a call that does not
        # block (a poll, a non-blocking read in the paste loop) is not such a moment
        if self.pending and self.app_is_main and not self.in_handler:
            # (signals that arrive while a Python-level handler runs wait until it has returned: nesting is
            # possible in CPython, but a simulated flood whose events are all "due" would nest without bound)
            self.deliver_pending(allow_raising=blocking and name in RAISING_SEAMS)

    def deliver_pending(self, allow_raising):
        while True:
            d = self._deliverable()
            if not d:
                return
            if not allow_raising and not self._returns_normally(d[0]):
                return
            signum = d[0]
            self.pending.remove(signum)
            self.deliver(signum)

    def deliver(self, signum):
        w = self.w
        self.delivered += 1
        wrote = None
        if self.wakeup_fd != -1:
            o = self.k.fds.get(self.wakeup_fd)
            if o is not None and o.kind == "pw" and o.pipe.r_open:
                if o.pipe.cap - len(o.pipe.buf) >= 1:
                    o.pipe.buf.append(signum & 0xFF)
                    wrote = True
                else:
                    wrote = False
                    w.probe("wakeup_pipe_full")
        h = self.handlers.get(signum, _signal.SIG_DFL)
        w.log.add("deliver", signum, wrote, _hname(h))
        if h is _signal.SIG_IGN:
            return
        if h is _signal.SIG_DFL:
            if signum in (_signal.SIGWINCH, _signal.SIGCHLD, _signal.SIGURG):
                return
            # the default action would end the process: there is nothing left to observe; the signal is dropped
            w.log.add("would_terminate_process", signum)
            w.probe("signal_with_default_action_dropped")
            return
        self.in_handler += 1
        try:
            h(signum, None)
        finally:
            self.in_handler -= 1


def _hname(h):
    if h is _signal.SIG_IGN:
        return "SIG_IGN"
    if h is _signal.SIG_DFL:
        return "SIG_DFL"
    if h is _signal.default_int_handler:
        return "default_int_handler"
    return getattr(h, "sim_name", None) or getattr(h, "__qualname__", type(h).__name__)


class SimOut:
    """out_stream handed to curtsies windows: text write + flush into the
    terminal model.  No fileno attribute (blessed then treats it as not-a-tty)."""

    def __init__(self, world, term, buffering="none"):
        self.world = world
        self.term = term
        self.nwrites = 0
        self.on_write = None      # hook(ordinal) before the write takes effect
        # like a real text stream: "none" - every write reaches the terminal at once; "line" - when the text
        # written contains a newline (a tty's stdout); "block" - only on flush().  What is never flushed never
        # reaches the terminal.
        self.buffering = buffering
        self.pending_out = []

    def write(self, s):
        if not isinstance(s, str):
            raise TypeError("write() argument must be str, not %s" % type(s).__name__)
        self.world.seam("out.write")
        self.nwrites += 1
        if self.on_write is not None:
            self.on_write(self.nwrites)
        self.world.log.add("out", s)
        if self.buffering == "none":
            self.term.feed(s)
        else:
            self.pending_out.append(s)
            if self.buffering == "line" and "\n" in s:
                self._deliver()
        return len(s)

    def _deliver(self):
        if self.pending_out:
            data = "".join(self.pending_out)
            del self.pending_out[:]
            self.term.feed(data)

    def flush(self):
        if self.pending_out:
            self.world.log.add("flush", sum(len(x) for x in self.pending_out))
            self._deliver()

    def writelines(self, lines):
        for line in lines:
            self.write(line)

    def isatty(self):
        return True

    def writable(self):
        return True

    closed = False
    encoding = "utf-8"
    errors = "strict"


class SimIn:
    """in_stream: fileno() of the simulated tty and an unbuffered text read(n)."""

    def __init__(self, world, kernel, fd, encoding="utf-8"):
        self.world = world
        self.kernel = kernel
        self.fd = fd
        self.encoding = encoding
        self.read_errors = {}     # char-read ordinal -> number of OSErrors to raise first
        self.nreads = 0           # successful character reads
        self.ncalls = 0
        self._err_left = None
        self.on_read = None       # hook(call ordinal) before the read's seam point
        self.error_kinds = ("EIO",)   # which OSError subclasses injected read faults cycle through
        self._decoded_ahead = ""

    def fileno(self):
        return self.fd

    def isatty(self):
        return True

    def readable(self):
        return True

    closed = False
    errors = "strict"

    def read(self, n=1):
        import codecs
        w = self.world
        self.ncalls += 1
        if self.on_read is not None:
            self.on_read(self.ncalls)
        w.seam("in.read")
        if not isinstance(n, int) or n < 1:
            raise HarnessError("SimIn.read(%r) is not modelled" % (n,))
        o = self.kernel._get(self.fd)
        ordinal = self.nreads + 1
        if self._err_left is None:
            self._err_left = self.read_errors.get(ordinal, 0)
        if self._err_left > 0:
            self._err_left -= 1
            w.fault("in_read_oserror")
            kind = self.error_kinds[(self.ncalls + self._err_left) % len(self.error_kinds)]
            w.log.add("in.read", "OSError", kind)
            if kind == "EAGAIN":
                e = BlockingIOError(errno.EAGAIN, "Resource temporarily unavailable")
            elif kind == "EINTR":
                e = InterruptedError(errno.EINTR, "Interrupted system call")
            elif kind == "ENXIO":
                e = OSError(errno.ENXIO, "No such device or address")
            elif kind == "ETIMEDOUT":
                e = TimeoutError(errno.ETIMEDOUT, "Connection timed out")
            elif kind == "bare":
                e = OSError("read failed")          # an OSError without an errno (raised by a wrapping stream object)
            else:
                e = OSError(errno.EIO, "Input/output error")
            e.sim = True
            raise e
        dec = codecs.getincrementaldecoder(self.encoding)("replace")
        # (an undecodable byte followed by a valid one decodes to two characters at once: like a text stream, read(n)
        # hands out n of them and keeps the rest for the next call)
        out, self._decoded_ahead = self._decoded_ahead[:n], self._decoded_ahead[n:]
        while len(out) < n:
            if not o.readable_len():
                if out:
                    break      # like a tty: return what is there once something was read
                if o.flags & _os.O_NONBLOCK:
                    w.log.add("in.read", "EAGAIN")
                    raise BlockingIOError(errno.EAGAIN, "Resource temporarily unavailable")
                w.block_until(lambda: o.readable_len() > 0, None, "in.read")
            b = bytes(o.inq[:1])
            del o.inq[:1]
            out += dec.decode(b)
        if len(out) > n:
            out, self._decoded_ahead = out[:n], out[n:] + self._decoded_ahead
        self.nreads += 1
        self._err_left = None
        w.log.add("in.read", out)
        return out
