"""Generic driver for a property check: fan seeds out over forked workers, judge,
minimise, confirm replay in a fresh interpreter, determinism self-check, evidence.

Exit codes: 0 held (possibly with KNOWN-FINDING lines), 1 VIOLATION, 2 harness error.
"""

import argparse
import faulthandler
import json
import multiprocessing
import os
import subprocess
import sys
import time
import traceback
from concurrent.futures import ProcessPoolExecutor, as_completed

from . import plan as planmod

VERIF = os.path.dirname(os.path.dirname(os.path.abspath(__file__)))
CHECK = os.path.join(VERIF, "check")
FINDINGS = os.path.join(VERIF, "findings", "known_findings.json")
REPLAYS = os.environ.get("VERIF_REPLAY_DIR") or os.path.join(VERIF, "replays")


def _merge(dst, src):
    for k, v in src.items():
        dst[k] = dst.get(k, 0) + v


def load_findings(prop):
    try:
        with open(FINDINGS) as f:
            data = json.load(f)
    except FileNotFoundError:
        return []
    return [e for e in data.get("findings", []) if e.get("property") == prop]


def signature(res):
    v = res.get("violation")
    return v["invariant"] if v else None


_FROZEN = []


def _worker(args):
    """Run a chunk of run indices.  Returns aggregated statistics."""
    modname, tier, base, indices, det_every, opts, deadline_wall = args
    faulthandler.dump_traceback_later(opts.get("watchdog", 300), exit=True)
    mod = __import__(modname, fromlist=["x"])
    if not _FROZEN:
        # everything imported so far is permanent: later collections (one per run, in setup.finish) only look at
        # what the runs themselves allocate
        import gc
        gc.collect()
        gc.freeze()
        _FROZEN.append(True)
    out = {"runs": 0, "probes": {}, "faults": {}, "digests_nt": set(), "states": set(),
           "sim_s": 0.0, "failures": [], "errors": [], "det_checked": 0, "det_bad": [],
           "digest_of": {}, "samples": [], "truncated": False, "known_hits": {}, "steps": 0,
           "trivial": 0, "executions": 0}
    want_digest = set(opts.get("want_digest", ()))
    known = opts.get("known", [])
    avoid = [e["trigger"] for e in known if e.get("status") == "known" and e.get("trigger")]
    for i in indices:
        if deadline_wall and time.time() > deadline_wall:
            out["truncated"] = True
            break
        seed = planmod.seed_for(mod.PROP, tier, base, i)
        with_triggers = bool(avoid) and tier == "thorough" and i % 10 == 9
        p = mod.gen_plan(seed, tier, i, avoid=() if with_triggers else avoid)
        try:
            res = mod.run_plan(p)
        except Exception:
            out["errors"].append({"index": i, "seed": seed, "error": traceback.format_exc(limit=8)})
            continue
        out["runs"] += 1
        out["executions"] += res.get("executions", 1)
        out["steps"] += res.get("nsteps", 0)
        if res.get("error"):
            out["errors"].append({"index": i, "seed": seed, "error": res["error"], "plan": res.get("error_plan") or p})
            continue
        _merge(out["probes"], res["probes"])
        _merge(out["faults"], res["faults"])
        out["sim_s"] += res.get("sim_s", 0.0)
        out["states"].update(res.get("states", ()))
        d = int(res["digest"][:16], 16)
        if res.get("nontrivial"):
            out["digests_nt"].add(d)
        else:
            out["trivial"] += 1
        if i in want_digest:
            out["digest_of"][i] = res["digest"]
        if len(out["samples"]) < 1:
            out["samples"].append(p)
        if res.get("violation"):
            sig = signature(res)
            hit = None
            for e in known:
                if e.get("status") == "known" and e.get("signature") == sig:
                    trig = mod.TRIGGERS.get(e.get("trigger"))
                    if trig is not None and trig(p):
                        hit = e["id"]
                        break
            if hit:
                out["known_hits"][hit] = out["known_hits"].get(hit, 0) + 1
            elif len(out["failures"]) < 8:
                v = dict(res["violation"])
                fp = v.pop("concrete_plan", None) or p
                out["failures"].append({"index": i, "seed": seed, "plan": fp, "violation": v})
        if det_every and i % det_every == 0:
            res2 = mod.run_plan(planmod.clone(p))
            out["det_checked"] += 1
            if res2["digest"] != res["digest"]:
                out["det_bad"].append({"index": i, "seed": seed})
    faulthandler.cancel_dump_traceback_later()
    return out


def _run_one_fresh(prop, path, hashseed="0", repo=None):
    env = dict(os.environ)
    env["PYTHONHASHSEED"] = hashseed
    if repo:
        env["CURTSIES_REPO"] = repo
    r = subprocess.run([CHECK, prop, "--replay", path, "--quiet"],
                       capture_output=True, text=True, env=env, timeout=300)
    sig = None
    for line in r.stdout.splitlines():
        if line.startswith("SIGNATURE "):
            sig = line.split(" ", 1)[1].strip()
    return r.returncode, sig, r.stdout + r.stderr


def _minimise_in_child(modname, plan, sig, budget):
    """minimisation re-executes failing plans hundreds of times: do it in a forked
    child so that leaked state cannot touch the parent"""
    ctx = multiprocessing.get_context("fork")
    with ProcessPoolExecutor(max_workers=1, mp_context=ctx) as ex:
        return ex.submit(_minimise, modname, plan, sig, budget).result(timeout=600)


def _minimise(modname, plan, sig, budget):
    faulthandler.dump_traceback_later(500, exit=True)
    mod = __import__(modname, fromlist=["x"])

    def fails(p):
        if hasattr(mod, "valid") and not mod.valid(p):
            return False
        try:
            r = mod.run_plan(planmod.clone(p))
        except Exception:
            return False
        return (not r.get("error")) and signature(r) == sig

    p = plan
    if hasattr(mod, "freeze"):
        fz = mod.freeze(planmod.clone(plan))
        if fz is not None and fails(fz):
            p = fz
    small = planmod.minimise(p, fails, getattr(mod, "SIMPLIFIERS", ()),
                             getattr(mod, "LIST_KEYS", ("steps",)), budget)
    faulthandler.cancel_dump_traceback_later()
    return small


def replay_file(mod, path, quiet=False, keep_log=False):
    p = planmod.load(path)
    res = mod.run_plan(p, keep_log=keep_log)
    if res.get("error"):
        print("HARNESS-ERROR %s" % res["error"])
        return 2, res
    if res.get("violation"):
        print("SIGNATURE %s" % signature(res))
        print("VIOLATION property=%s replay=%s" % (mod.PROP, path))
        if not quiet:
            print(json.dumps(res["violation"], indent=1, default=str)[:4000])
        return 1, res
    print("OK replay=%s digest=%s" % (path, res["digest"]))
    return 0, res


def _watchdog(seconds, what):
    """the driver itself must never hang: after `seconds` print the stacks and leave with status 2
    (a time-out is a harness error, never a verdict)"""
    import threading

    def fire():
        try:
            sys.stdout.write("HARNESS-ERROR watchdog: %s still running after %ds\n" % (what, seconds))
            sys.stdout.flush()
            faulthandler.dump_traceback(all_threads=True)
        finally:
            os._exit(2)
    t = threading.Timer(seconds, fire)
    t.daemon = True
    t.start()
    return t


def main(mod, argv=None):
    ap = argparse.ArgumentParser(prog="check " + mod.PROP)
    ap.add_argument("--tier", default=os.environ.get("VERIF_TIER", "quick"), choices=("quick", "thorough"))
    ap.add_argument("--replay")
    ap.add_argument("--jobs", type=int, default=min(16, os.cpu_count() or 1))
    ap.add_argument("--runs", type=int, help="override the number of runs")
    ap.add_argument("--max-seconds", type=float)
    ap.add_argument("--digests", help="comma separated run indices: print their digests (self-check helper)")
    ap.add_argument("--quiet", action="store_true")
    ap.add_argument("--log", action="store_true", help="with --replay: print the event log")
    ap.add_argument("--no-evidence", action="store_true")
    ap.add_argument("--show", type=int, help="print the plan of run index N and exit")
    ap.add_argument("--fast", action="store_true",
                    help="sensitivity self-tests: stop handing out work after the first failure, confirm at most three "
                         "signatures with a small minimisation budget (verdicts are confirmed in a fresh interpreter as always)")
    a = ap.parse_args(argv)
    base = int(os.environ.get("VERIF_SEED", "0") or 0)
    modname = mod.__name__
    t_start = time.time()

    if a.replay:
        _watchdog(300, "replay")
        code, res = replay_file(mod, a.replay, a.quiet, keep_log=a.log)
        if a.log:
            for line in res.get("log", []):
                print(line)
        return code

    if a.show is not None:
        seed = planmod.seed_for(mod.PROP, a.tier, base, a.show)
        print(json.dumps(mod.gen_plan(seed, a.tier, a.show, avoid=()), indent=1, sort_keys=True))
        return 0

    if a.digests:
        for i in [int(x) for x in a.digests.split(",") if x]:
            seed = planmod.seed_for(mod.PROP, a.tier, base, i)
            known = load_findings(mod.PROP)
            avoid = [e["trigger"] for e in known if e.get("status") == "known" and e.get("trigger")]
            with_triggers = bool(avoid) and a.tier == "thorough" and i % 10 == 9
            res = mod.run_plan(mod.gen_plan(seed, a.tier, i, avoid=() if with_triggers else avoid))
            print("DIGEST %d %s" % (i, res["digest"]))
        return 0

    known = load_findings(mod.PROP)
    nruns = a.runs if a.runs is not None else mod.COUNTS[a.tier]
    max_s = a.max_seconds if a.max_seconds else mod.MAX_SECONDS[a.tier]
    _watchdog(int(max_s) + 1500, "check %s --tier %s" % (mod.PROP, a.tier))
    deadline_wall = t_start + max_s
    jobs = max(1, a.jobs)
    harness_errors = []
    violations = []     # (path, failure)
    known_lines = []

    # 1. replay committed known / fixed findings -------------------------------------------
    for e in known:
        path = os.path.join(VERIF, e["replay"])
        if not os.path.exists(path):
            harness_errors.append("known finding %s: replay file missing" % e["id"])
            continue
        res = mod.run_plan(planmod.load(path))
        if res.get("error"):
            harness_errors.append("known finding %s: %s" % (e["id"], res["error"]))
        elif e["status"] == "known":
            if signature(res) == e["signature"]:
                known_lines.append("KNOWN-FINDING: property=%s %s" % (mod.PROP, e["description"]))
            elif res.get("violation"):
                violations.append((path, {"violation": res["violation"], "seed": None, "index": None}))
            else:
                print("NOTE: known finding %s no longer reproduces (was it repaired? mark it fixed)" % e["id"])
        else:  # fixed: a regression plan that must pass
            if res.get("violation"):
                violations.append((path, {"violation": res["violation"], "seed": None, "index": None}))

    # 2. fan out ----------------------------------------------------------------------------
    det_every = mod.DET_EVERY.get(a.tier, 50) if hasattr(mod, "DET_EVERY") else 50
    nfresh = 24 if a.tier == "quick" else 64
    step = max(1, nruns // nfresh)
    want = list(range(0, nruns, step))[:nfresh]
    opts = {"known": known, "want_digest": want, "watchdog": int(max_s) + 240}
    nchunks = jobs * (4 if a.tier == "quick" else 16)
    chunks = [list(range(c, nruns, nchunks)) for c in range(nchunks)]
    chunks = [c for c in chunks if c]
    agg = {"runs": 0, "probes": {}, "faults": {}, "digests_nt": set(), "states": set(), "sim_s": 0.0,
           "failures": [], "errors": [], "det_checked": 0, "det_bad": [], "digest_of": {},
           "samples": [], "truncated": False, "known_hits": {}, "steps": 0, "trivial": 0, "executions": 0}
    ctx = multiprocessing.get_context("fork")
    try:
        with ProcessPoolExecutor(max_workers=jobs, mp_context=ctx) as ex:
            futs = [ex.submit(_worker, (modname, a.tier, base, c, det_every, opts, deadline_wall)) for c in chunks]
            for f in as_completed(futs):
                if f.cancelled():
                    continue
                o = f.result()
                agg["runs"] += o["runs"]
                agg["steps"] += o["steps"]
                agg["executions"] += o["executions"]
                agg["trivial"] += o["trivial"]
                _merge(agg["probes"], o["probes"])
                _merge(agg["faults"], o["faults"])
                _merge(agg["known_hits"], o["known_hits"])
                agg["digests_nt"] |= o["digests_nt"]
                agg["states"] |= o["states"]
                agg["sim_s"] += o["sim_s"]
                agg["failures"] += o["failures"]
                agg["errors"] += o["errors"]
                agg["det_checked"] += o["det_checked"]
                agg["det_bad"] += o["det_bad"]
                agg["digest_of"].update(o["digest_of"])
                if len(agg["samples"]) < 3:
                    agg["samples"] += o["samples"][:1]
                agg["truncated"] = agg["truncated"] or o["truncated"]
                if a.fast and agg["failures"]:
                    for g in futs:
                        g.cancel()
    except Exception:
        harness_errors.append("worker pool failed: " + traceback.format_exc(limit=5))

    for e in agg["errors"][:5]:
        harness_errors.append("run index %s seed %s: %s" % (e.get("index"), e.get("seed"), e["error"]))
        if e.get("plan") is not None:
            path = os.path.join(REPLAYS, "%s-error-%s.json" % (mod.PROP, e.get("seed")))
            planmod.save(e["plan"], path)
            harness_errors.append("  plan saved to %s" % path)
    if agg["det_bad"]:
        harness_errors.append("determinism self-check failed (same process) for %r" % agg["det_bad"][:5])

    # 3. determinism: fresh interpreter, another PYTHONHASHSEED -------------------------------
    fresh_ok = None
    if agg["digest_of"] and not harness_errors:
        idxs = sorted(agg["digest_of"])
        env = dict(os.environ)
        env["PYTHONHASHSEED"] = "4242" if os.environ.get("PYTHONHASHSEED") != "4242" else "17"
        env["VERIF_SEED"] = str(base)
        try:
            r = subprocess.run([CHECK, mod.PROP, "--tier", a.tier,
                                "--digests", ",".join(map(str, idxs))],
                               capture_output=True, text=True, env=env, timeout=600)
            got = {}
            for line in r.stdout.splitlines():
                if line.startswith("DIGEST "):
                    _, i, d = line.split()
                    got[int(i)] = d
            bad = [i for i in idxs if got.get(i) != agg["digest_of"][i]]
            fresh_ok = not bad
            if bad:
                # is it the harness, or does the library under test itself depend on the hash seed (e.g. output
                # ordered by a set)?  Replays are pinned to the hash seed of this process: repeat under it.
                env2 = dict(env)
                env2["PYTHONHASHSEED"] = os.environ.get("PYTHONHASHSEED", "0")
                r2 = subprocess.run([CHECK, mod.PROP, "--tier", a.tier, "--digests", ",".join(map(str, bad))],
                                    capture_output=True, text=True, env=env2, timeout=600)
                got2 = {}
                for line in r2.stdout.splitlines():
                    if line.startswith("DIGEST "):
                        _, i, d = line.split()
                        got2[int(i)] = d
                if all(got2.get(i) == agg["digest_of"][i] for i in bad):
                    fresh_ok = "same hash seed only"
                    print("NOTE: %d of %d runs produce a different event log under another PYTHONHASHSEED but the same one "
                          "in a fresh interpreter under this one: the code under test depends on the hash seed "
                          "(replays are pinned to PYTHONHASHSEED=%s)" % (len(bad), len(idxs), env2["PYTHONHASHSEED"]))
                else:
                    harness_errors.append("determinism self-check failed (fresh interpreter) for run indices %r\n%s"
                                          % (bad[:8], r.stderr[-2000:]))
        except Exception:
            harness_errors.append("fresh-interpreter determinism check crashed: " + traceback.format_exc(limit=3))

    # 4. minimise + confirm failures --------------------------------------------------------
    by_sig = {}
    for f in sorted(agg["failures"], key=lambda f: f["index"]):
        by_sig.setdefault(f["violation"]["invariant"], []).append(f)
    for nsig, (sig, flist) in enumerate(sorted(by_sig.items())):
        if a.fast and nsig >= 3 and violations:
            break
        confirmed = False
        last_out = ""
        # a failure that does not replay in a fresh interpreter (e.g. state that leaked from an earlier run
        # of the same worker process) is not reported; the next failures with the same signature are tried
        for f in flist[:6]:
            try:
                small = _minimise_in_child(modname, f["plan"], sig,
                                           30 if a.fast else mod.SHRINK_BUDGET if hasattr(mod, "SHRINK_BUDGET") else 400)
            except Exception:
                small = f["plan"]
                print("NOTE: minimisation failed, reporting the unminimised plan\n" + traceback.format_exc(limit=3))
            path = os.path.join(REPLAYS, "%s-%s-%s.json" % (mod.PROP, sig, f["seed"]))
            small = dict(small)
            small["_found"] = {"seed": f["seed"], "index": f["index"], "tier": a.tier, "verif_seed": base,
                               "invariant": sig}
            planmod.save(small, path)
            code, sig2, outp = _run_one_fresh(mod.PROP, path, repo=os.environ.get("CURTSIES_REPO"))
            if code == 1 and sig2 == sig:
                res = mod.run_plan(planmod.load(path))
                f = dict(f)
                f["violation"] = res.get("violation") or f["violation"]
                violations.append((path, f))
                confirmed = True
                break
            # the minimised plan does not replay: fall back to the original plan
            planmod.save(dict(f["plan"], _found=small["_found"]), path)
            code, sig2, outp = _run_one_fresh(mod.PROP, path, repo=os.environ.get("CURTSIES_REPO"))
            if code == 1 and sig2 == sig:
                violations.append((path, f))
                confirmed = True
                break
            last_out = outp
            try:
                os.remove(path)
            except OSError:
                pass
        if not confirmed:
            harness_errors.append("violation %s (seeds %s) does not replay in a fresh interpreter "
                                  "(state leaking between runs of one process?):\n%s"
                                  % (sig, [f["seed"] for f in flist[:6]], last_out[-1200:]))

    for e in known:
        if e["status"] == "known" and agg["known_hits"].get(e["id"]):
            line = "KNOWN-FINDING: property=%s %s" % (mod.PROP, e["description"])
            if line not in known_lines:
                known_lines.append(line)

    wall = time.time() - t_start
    # 5. evidence ---------------------------------------------------------------------------
    if not a.no_evidence:
        zero_probes = [p for p in getattr(mod, "PROBES", ()) if not agg["probes"].get(p)]
        ev = {
            "property_id": mod.PROP,
            "tier": a.tier,
            "seed": base,
            "level": mod.LEVEL,
            "wall_s": round(wall, 2),
            "violations": len(violations),
            "coverage": {
                "evaluations": agg["runs"],
                "distinct_nontrivial": len(agg["digests_nt"]),
                "rule": mod.RULE,
                "samples": agg["samples"][:2] or [None],
                "runs_per_hour": int(agg["runs"] / wall * 3600) if wall > 0 else 0,
                "simulated_seconds": round(agg["sim_s"], 3),
                "operations_executed": agg["steps"],
                "executions_including_enumerated_fault_variants": agg["executions"],
                "faults_fired": dict(sorted(agg["faults"].items())),
                "probes_hit": dict(sorted(agg["probes"].items())),
                "probes_never_hit": zero_probes,
                "distinct_abstract_states": len(agg["states"]),
                "abstract_state_definition": getattr(mod, "STATE_DEF", ""),
                "trivial_runs": agg["trivial"],
                "components": mod.COMPONENTS,
                "determinism_selfcheck": {
                    "same_process_reruns": agg["det_checked"],
                    "same_process_mismatches": len(agg["det_bad"]),
                    "fresh_interpreter_other_hashseed_runs": len(agg["digest_of"]),
                    "fresh_interpreter_ok": fresh_ok,
                },
                "known_findings_seen": sorted(set(known_lines)),
                "known_trigger_hits": agg["known_hits"],
                "truncated_by_wall_clock": agg["truncated"],
                "planned_runs": nruns,
                "jobs": jobs,
                "harness_errors": harness_errors[:5],
                "exhaustive": False,
            },
            "assumptions": mod.ASSUMPTIONS,
        }
        ev["coverage"].update(getattr(mod, "extra_coverage", lambda agg: {})(agg))
        os.makedirs(os.path.join(VERIF, "evidence"), exist_ok=True)
        with open(os.path.join(VERIF, "evidence", "%s.json" % mod.PROP), "w") as fh:
            json.dump(ev, fh, indent=1, sort_keys=True, default=str)
            fh.write("\n")

    # 6. report -----------------------------------------------------------------------------
    for line in known_lines:
        print(line)
    print("%s tier=%s seed=%d runs=%d distinct_nontrivial=%d states=%d wall=%.1fs (%.0f runs/h) faults=%s"
          % (mod.PROP, a.tier, base, agg["runs"], len(agg["digests_nt"]), len(agg["states"]), wall,
             agg["runs"] / wall * 3600 if wall else 0, dict(sorted(agg["faults"].items()))))
    if harness_errors:
        for h in harness_errors:
            print("HARNESS-ERROR " + h)
    for path, f in violations:
        v = f["violation"]
        print("VIOLATION property=%s replay=%s" % (mod.PROP, path))
        if not a.quiet:
            print("  invariant=%s step=%s seed=%s" % (v.get("invariant"), v.get("step"), f.get("seed")))
            print("  " + json.dumps(v.get("detail"), default=str)[:1500])
    if violations:
        return 1
    if harness_errors:
        return 2
    if agg["runs"] == 0:
        print("HARNESS-ERROR no runs executed")
        return 2
    return 0
