import importlib
import os
import sys

HERE = os.path.dirname(os.path.abspath(__file__))
sys.path.insert(0, HERE)


def main():
    if len(sys.argv) < 2:
        print("usage: check <ID>|selftest ... ")
        return 2
    what = sys.argv[1]
    if what == "selftest":
        from selftest import main as st
        return st.main(sys.argv[2:])
    from sim import seams  # noqa: F401  (puts /repo first on sys.path, pins TERM)
    mod = importlib.import_module("checks.%s" % what.lower())
    from sim import runner
    return runner.main(mod, sys.argv[2:])


if __name__ == "__main__":
    sys.exit(main())
