import importlib
import os
import sys

HERE = os.path.dirname(os.path.abspath(__file__))
sys.path.insert(0, HERE)


def main():
    if len(sys.argv) < 2:
        print("usage: check <ID>|selftest ... ")
        return 2
    what = sys.argv[1]
    if what == "selftest":
        from selftest import main as st
        return st.main(sys.argv[2:])
    from sim import seams  # noqa: F401  (puts /repo first on sys.path, pins TERM)
    mod = importlib.import_module("checks.%s" % what.lower())
    from sim import runner
    return runner.main(mod, sys.argv[2:])


if __name__ == "__main__":
    try:
        code = main()
    except SystemExit:
        raise
    except BaseException:
        # a crash of the harness is never a verdict: exit 2, never 1
        import traceback
        traceback.print_exc()
        print("HARNESS-ERROR uncaught exception in the check driver")
        code = 2
    sys.exit(code)
